(* The methods of CertificateBuildParams GENERATED from aggsender/types/certificate_build_params.go by tools/go2coq on every run
   (Range, NumberOfBridges / NumberOfClaims / NumberOfBlocks, EstimatedSize with its float64 accumulation and the constants
   0.09 KB, 2.8 KB, 0.07 KB, 10 KB evaluated from the Go constant declarations, IsEmpty, IsARetry, MaxDepositCount) compute what
   the hand-written model of Model/CertCut.v computes, for every value of the build parameters. `abs` reads a generated record as
   the model's: a bridge / claim is reduced to its block number and the length of its metadata (what the functions read); Range is
   additionally shown to keep the selected elements WHOLE and in order (filter over the generated records). *)
From Coq Require Import NArith ZArith List Bool Lia.
From Flocq Require IEEE754.BinarySingleNaN.
From Verif Require Import Base.GoNum Model.CertCut Gen.GenBuildParams.
From Verif Require Proofs.CertCutProofs.
Import ListNotations.
Open Scope N_scope.

Definition abs_bridge (b : Bridge) : event := Ev (Bridge_BlockNum b) (N.of_nat (length (Bridge_Metadata b))) (Bridge_DepositCount b).
Definition abs_claim (c : Claim) : event := Ev (Claim_BlockNum c) (N.of_nat (length (Claim_Metadata c))) 0.
Definition abs_type (t : N) : cert_type := if t =? 1 then TPP else if t =? 2 then TFEP else if t =? 3 then TOptimistic else TUnknown.
Definition abs (c : CertificateBuildParams) : params :=
  P (CertificateBuildParams_FromBlock c) (CertificateBuildParams_ToBlock c) (map abs_bridge (CertificateBuildParams_Bridges c))
    (map abs_claim (CertificateBuildParams_Claims c)) (CertificateBuildParams_RetryCount c)
    (is_some (CertificateBuildParams_LastSentCertificate c)) (abs_type (CertificateBuildParams_CertificateType c)).

(* ================= Range ================= *)
Definition in_rng_b (f t : N) (b : Bridge) : bool := (f <=? Bridge_BlockNum b) && (Bridge_BlockNum b <=? t).
Definition in_rng_c (f t : N) (c : Claim) : bool := (f <=? Claim_BlockNum c) && (Claim_BlockNum c <=? t).

Lemma fold_filter_bridges f t : forall (l : list Bridge) (nc : CertificateBuildParams),
  fold_left (fun newCert bridge =>
      if (N.leb f (Bridge_BlockNum bridge) && N.leb (Bridge_BlockNum bridge) t)%bool
      then set_CertificateBuildParams_Bridges newCert (CertificateBuildParams_Bridges newCert ++ [bridge]) else newCert) l nc =
  set_CertificateBuildParams_Bridges nc (CertificateBuildParams_Bridges nc ++ filter (in_rng_b f t) l).
Proof.
  induction l as [|b l IH]; intros nc; cbn [fold_left filter].
  - rewrite app_nil_r. destruct nc; reflexivity.
  - rewrite IH. unfold in_rng_b at 2. destruct (_ && _)%bool.
    + destruct nc; cbn. rewrite <- app_assoc. reflexivity.
    + reflexivity.
Qed.
Lemma fold_filter_claims f t : forall (l : list Claim) (nc : CertificateBuildParams),
  fold_left (fun newCert claim =>
      if (N.leb f (Claim_BlockNum claim) && N.leb (Claim_BlockNum claim) t)%bool
      then set_CertificateBuildParams_Claims newCert (CertificateBuildParams_Claims newCert ++ [claim]) else newCert) l nc =
  set_CertificateBuildParams_Claims nc (CertificateBuildParams_Claims nc ++ filter (in_rng_c f t) l).
Proof.
  induction l as [|b l IH]; intros nc; cbn [fold_left filter].
  - rewrite app_nil_r. destruct nc; reflexivity.
  - rewrite IH. unfold in_rng_c at 2. destruct (_ && _)%bool.
    + destruct nc; cbn. rewrite <- app_assoc. reflexivity.
    + reflexivity.
Qed.

(* the generated Range, in closed form: the receiver itself for its own range, an error outside it or for an inverted range,
   otherwise a record with the new bounds, the elements of the range (whole, in order) and the other fields of the view kept *)
Theorem Range_closed_form (c : CertificateBuildParams) (f t : N) :
  CertificateBuildParams_Range c f t =
  if (CertificateBuildParams_FromBlock c =? f) && (CertificateBuildParams_ToBlock c =? t) then (Some c, EOK)
  else if (f <? CertificateBuildParams_FromBlock c) || (CertificateBuildParams_ToBlock c <? t) then (None, EFail)
  else if t <? f then (None, EFail)
  else (Some (mkCertificateBuildParams f t (filter (in_rng_b f t) (CertificateBuildParams_Bridges c))
                (filter (in_rng_c f t) (CertificateBuildParams_Claims c)) (CertificateBuildParams_RetryCount c)
                (CertificateBuildParams_LastSentCertificate c) (CertificateBuildParams_CertificateType c)), EOK).
Proof.
  unfold CertificateBuildParams_Range.
  destruct (_ && _)%bool; [reflexivity|]. destruct (_ || _)%bool; [reflexivity|]. destruct (t <? f); [reflexivity|].
  cbv zeta.
  match goal with |- context [fold_left ?g (CertificateBuildParams_Claims c) (fold_left ?h (CertificateBuildParams_Bridges c) ?nc)] =>
    change h with (fun newCert bridge =>
      if (N.leb f (Bridge_BlockNum bridge) && N.leb (Bridge_BlockNum bridge) t)%bool
      then set_CertificateBuildParams_Bridges newCert (CertificateBuildParams_Bridges newCert ++ [bridge]) else newCert);
    change g with (fun newCert claim =>
      if (N.leb f (Claim_BlockNum claim) && N.leb (Claim_BlockNum claim) t)%bool
      then set_CertificateBuildParams_Claims newCert (CertificateBuildParams_Claims newCert ++ [claim]) else newCert)
  end.
  rewrite fold_filter_bridges, fold_filter_claims. reflexivity.
Qed.

Lemma filter_map_bridge f t l : filter (in_range f t) (map abs_bridge l) = map abs_bridge (filter (in_rng_b f t) l).
Proof. induction l as [|b l IH]; [reflexivity|]. cbn [map filter]. rewrite IH. unfold in_range, in_rng_b, abs_bridge at 1; cbn [ev_block]. destruct (_ && _)%bool; reflexivity. Qed.
Lemma filter_map_claim f t l : filter (in_range f t) (map abs_claim l) = map abs_claim (filter (in_rng_c f t) l).
Proof. induction l as [|b l IH]; [reflexivity|]. cbn [map filter]. rewrite IH. unfold in_range, in_rng_c, abs_claim at 1; cbn [ev_block]. destruct (_ && _)%bool; reflexivity. Qed.

Theorem Range_agree (c : CertificateBuildParams) (f t : N) :
  match range_cut (abs c) f t with
  | Ok p => exists c', CertificateBuildParams_Range c f t = (Some c', EOK) /\ abs c' = p
  | Err _ => CertificateBuildParams_Range c f t = (None, EFail)
  end.
Proof.
  rewrite Range_closed_form. unfold range_cut.
  change (p_from (abs c)) with (CertificateBuildParams_FromBlock c). change (p_to (abs c)) with (CertificateBuildParams_ToBlock c).
  destruct (_ && _)%bool; [exists c; split; reflexivity|]. destruct (_ || _)%bool; [reflexivity|]. destruct (t <? f); [reflexivity|].
  eexists; split; [reflexivity|]. unfold abs. cbn [CertificateBuildParams_FromBlock CertificateBuildParams_ToBlock CertificateBuildParams_Bridges
    CertificateBuildParams_Claims CertificateBuildParams_RetryCount CertificateBuildParams_LastSentCertificate CertificateBuildParams_CertificateType
    p_from p_to p_bridges p_claims p_retry p_has_last p_type].
  rewrite filter_map_bridge, filter_map_claim. reflexivity.
Qed.

(* ================= counts, IsEmpty, IsARetry ================= *)
Theorem NumberOfBridges_agree c : CertificateBuildParams_NumberOfBridges (Some c) = Z.of_N (number_of_bridges (abs c)).
Proof. unfold CertificateBuildParams_NumberOfBridges, number_of_bridges, abs; cbn [p_bridges]. rewrite map_length. lia. Qed.
Theorem NumberOfClaims_agree c : CertificateBuildParams_NumberOfClaims (Some c) = Z.of_N (number_of_claims (abs c)).
Proof. unfold CertificateBuildParams_NumberOfClaims, number_of_claims, abs; cbn [p_claims]. rewrite map_length. lia. Qed.
Lemma U64_same : GoNum.U64 = CertCut.U64. Proof. vm_compute. reflexivity. Qed.
Lemma I63_same : GoNum.I63 = CertCut.I63. Proof. vm_compute. reflexivity. Qed.
Theorem NumberOfBlocks_agree c : CertificateBuildParams_NumberOfBlocks (Some c) = number_of_blocks (abs c).
Proof.
  unfold CertificateBuildParams_NumberOfBlocks, number_of_blocks, go_int, int_of_u64, u64_add, u64_sub, add64, sub64.
  change (p_from (abs c)) with (CertificateBuildParams_FromBlock c). change (p_to (abs c)) with (CertificateBuildParams_ToBlock c).
  rewrite U64_same, I63_same. reflexivity.
Qed.
Theorem nil_receiver_counts : CertificateBuildParams_NumberOfBridges None = 0%Z /\ CertificateBuildParams_NumberOfClaims None = 0%Z /\
  CertificateBuildParams_NumberOfBlocks None = 0%Z /\ CertificateBuildParams_EstimatedSize None = 0 /\
  CertificateBuildParams_IsARetry None = false /\ CertificateBuildParams_MaxDepositCount None = 0.
Proof. repeat split. Qed.
Theorem IsEmpty_agree c : CertificateBuildParams_IsEmpty (Some c) = is_empty_cert (abs c).
Proof.
  unfold CertificateBuildParams_IsEmpty, is_empty_cert. rewrite NumberOfBridges_agree, NumberOfClaims_agree.
  destruct (number_of_bridges (abs c)), (number_of_claims (abs c)); reflexivity.
Qed.
Theorem IsARetry_agree c : CertificateBuildParams_IsARetry (Some c) = is_retry (abs c).
Proof. reflexivity. Qed.

(* ================= MaxDepositCount ================= *)
Fixpoint last_opt {A} (l : list A) : option A := match l with [] => None | [x] => Some x | _ :: t => last_opt t end.
Lemma last_opt_nth {A} (d : A) : forall l, l <> [] -> last_opt l = Some (nth (length l - 1) l d).
Proof.
  induction l as [|x l IH]; intros H; [congruence|]. destruct l as [|y l]; [reflexivity|].
  change (last_opt (x :: y :: l)) with (last_opt (y :: l)). rewrite IH by discriminate.
  cbn [length]. replace (S (S (length l)) - 1)%nat with (S (S (length l) - 1)) by lia. reflexivity.
Qed.
Theorem MaxDepositCount_agree c : (Z.of_nat (length (CertificateBuildParams_Bridges c)) < 9223372036854775808)%Z ->
  CertificateBuildParams_MaxDepositCount (Some c) =
  match last_opt (CertificateBuildParams_Bridges c) with Some b => Bridge_DepositCount b | None => 0 end.
Proof.
  intros Hlen. unfold CertificateBuildParams_MaxDepositCount, CertificateBuildParams_NumberOfBridges.
  destruct (CertificateBuildParams_Bridges c) as [|b l] eqn:E; [reflexivity|].
  replace (Z.of_nat (length (b :: l)) =? 0)%Z with false by (cbn [length]; symmetry; apply Z.eqb_neq; lia).
  rewrite (last_opt_nth (mkBridge 0 [] 0)) by discriminate. unfold list_get. f_equal. f_equal.
  unfold i64_sub, i64_wrap. rewrite Z.mod_small by (cbn [length] in *; lia). cbn [length]. lia.
Qed.

(* ================= EstimatedSize ================= *)
Lemma consts_agree : GoNum.f64_ratio 2304 25 = est_bridge_exit /\ GoNum.f64_ratio 14336 5 = est_imported_exit /\ GoNum.f64_ratio 1792 25 = est_signature /\
  GoNum.f64_of_N 10240 = est_proof.
Proof. repeat split; apply (@BinarySingleNaN.B2SF_inj 53 1024); vm_compute; reflexivity. Qed.

Lemma f64_of_len n : f64_of_Z (Z.of_nat n) = CertCut.f64_of_N (N.of_nat n).
Proof. unfold f64_of_Z, CertCut.f64_of_N, GoNum.f64_of_N. rewrite nat_N_Z. reflexivity. Qed.

Lemma sum_bridges_agree k : forall l acc,
  fold_left (fun sizeBridges bridge => f64_add (f64_add sizeBridges k) (f64_of_Z (Z.of_nat (length (Bridge_Metadata bridge))))) l acc =
  fold_left (fun acc e => fadd (fadd acc k) (CertCut.f64_of_N (ev_meta e))) (map abs_bridge l) acc.
Proof. induction l as [|b l IH]; intros acc; [reflexivity|]. cbn [map fold_left]. rewrite IH. unfold abs_bridge at 2; cbn [ev_meta]. rewrite f64_of_len. reflexivity. Qed.
Lemma sum_claims_agree k : forall l acc,
  fold_left (fun sizeClaims claim => f64_add (f64_add sizeClaims k) (f64_of_Z (Z.of_nat (length (Claim_Metadata claim))))) l acc =
  fold_left (fun acc e => fadd (fadd acc k) (CertCut.f64_of_N (ev_meta e))) (map abs_claim l) acc.
Proof. induction l as [|b l IH]; intros acc; [reflexivity|]. cbn [map fold_left]. rewrite IH. unfold abs_claim at 2; cbn [ev_meta]. rewrite f64_of_len. reflexivity. Qed.

Lemma aggchain_part_agree c : (Z.of_nat (length (CertificateBuildParams_Claims c)) * 200 < 9223372036854775808)%Z ->
  (if N.eqb (CertificateBuildParams_CertificateType c) 2
   then f64_add (f64_add (GoNum.f64_of_N 0) (GoNum.f64_of_N 10240))
          (f64_of_Z (i64_mul (Z.of_nat (length (CertificateBuildParams_Claims c))) (Z.of_N 200)))
   else f64_add (GoNum.f64_of_N 0) (GoNum.f64_ratio 1792 25)) =
  match p_type (abs c) with
  | TFEP => fadd (fadd (CertCut.f64_of_N 0) est_proof) (CertCut.f64_of_N (number_of_claims (abs c) * claim_size_factor))
  | _ => fadd (CertCut.f64_of_N 0) est_signature
  end.
Proof.
  intros Hlen. destruct consts_agree as (_ & _ & E3 & E4). rewrite E3, E4.
  unfold abs; cbn [p_type p_claims]. unfold abs_type.
  destruct (N.eqb_spec (CertificateBuildParams_CertificateType c) 2) as [->|Hne].
  - cbn [N.eqb Pos.eqb]. unfold fadd, number_of_claims, claim_size_factor; cbn [p_claims]. rewrite map_length. f_equal.
    unfold f64_of_Z, CertCut.f64_of_N, GoNum.f64_of_N. f_equal.
    unfold i64_mul, i64_wrap. change (Z.of_N 200) with 200%Z. rewrite Z.mod_small by lia. lia.
  - destruct (CertificateBuildParams_CertificateType c =? 1); [reflexivity|].
    destruct (CertificateBuildParams_CertificateType c =? 3); reflexivity.
Qed.

Theorem EstimatedSize_agree c : (Z.of_nat (length (CertificateBuildParams_Claims c)) * 200 < 9223372036854775808)%Z ->
  CertificateBuildParams_EstimatedSize (Some c) = estimated_size (abs c).
Proof.
  intros Hlen. unfold CertificateBuildParams_EstimatedSize, estimated_size, sum_events. cbv zeta.
  rewrite (aggchain_part_agree c Hlen).
  destruct consts_agree as (E1 & E2 & _ & _). rewrite E1, E2.
  rewrite sum_bridges_agree, sum_claims_agree. reflexivity.
Qed.

(* cutting the translated Range twice is cutting it once *)
Lemma Range_ok_model c f t c' :
  CertificateBuildParams_Range c f t = (Some c', EOK) -> range_cut (abs c) f t = Ok (abs c').
Proof.
  intros H. pose proof (Range_agree c f t) as A.
  destruct (range_cut (abs c) f t) as [p|e].
  - destruct A as (c'' & E & <-). rewrite H in E. now injection E as ->.
  - rewrite H in A. discriminate.
Qed.

Theorem Range_compose c f1 t1 c1 f2 t2 c2 :
  events_in_range (abs c) ->
  CertificateBuildParams_Range c f1 t1 = (Some c1, EOK) ->
  CertificateBuildParams_Range c1 f2 t2 = (Some c2, EOK) ->
  exists c2', CertificateBuildParams_Range c f2 t2 = (Some c2', EOK) /\ abs c2' = abs c2.
Proof.
  intros Hin H1 H2. apply Range_ok_model in H1. apply Range_ok_model in H2.
  pose proof (CertCutProofs.range_cut_compose _ _ _ _ _ _ _ Hin H1 H2) as H.
  pose proof (Range_agree c f2 t2) as A. rewrite H in A. exact A.
Qed.
