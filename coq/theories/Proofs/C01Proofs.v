(* C01: composition of L-frontier, L-initcache and the contract theorem; the bridge leaf layout. *)
From Coq Require Import Arith Lia List Bool PeanoNat NArith.
From Verif Require Import Base.Bytes Base.FastBytes Base.Hash Model.Merkle Model.MerkleSpec Model.Contracts
  Model.TreeStore Model.BridgeStore Proofs.Frontier Proofs.Rht Proofs.InitCache Proofs.ContractProofs Proofs.HashFacts.
Import ListNotations.
Local Close Scope N_scope.

Section C01.
Context {hash : Type}.
Variable node : hash -> hash -> hash.
Variable z0 : hash.
Variable f : nat -> hash.             (* leaf value of deposit i *)
Notation zero := (zero node z0).
Notation CacheInv := (CacheInv node z0 f).
Notation add_leafT := (fun H i c => add_leaf node zero H (Nat.testbit i) (f i) c).

Lemma high_bits_zero H i : i < 2 ^ H -> forall h, H <= h -> Nat.testbit i h = false.
Proof.
  intros Hi h Hh. rewrite (testbit_div i h). rewrite Nat.div_small; [reflexivity|].
  apply Nat.lt_le_trans with (2 ^ H); [exact Hi|]. apply Nat.pow_le_mono_r; lia.
Qed.

(* the frontier of a node that has appended deposits 0 .. n-1 one after another, from ANY initial cache *)
Fixpoint go_run (H n : nat) (c0 : cache) : cache :=
  match n with 0 => c0 | S k => snd (add_leafT H k (go_run H k c0)) end.

Lemma go_run_inv H n c0 : n <= 2 ^ H -> CacheInv H n (go_run H n c0).
Proof.
  induction n as [|n IH]; intros Hn; cbn [go_run]; [apply CacheInv_0|].
  apply add_leaf_preserves; [apply IH; lia|apply high_bits_zero; lia].
Qed.

(* the root recorded for deposit count i, whatever valid frontier the node holds (running cache, or the cache
   rebuilt after a restart / reorg / rollback), is the reference Merkle root of the first i+1 leaves *)
Theorem go_root_any_cache H i c : i < 2 ^ H -> CacheInv H i c ->
  fst (add_leafT H i c) = mroot node z0 f H (S i).
Proof.
  intros Hi Hinv. unfold mroot. rewrite (add_leaf_root node z0 f H i c Hinv (high_bits_zero H i Hi)).
  rewrite Nat.div_small by exact Hi. reflexivity.
Qed.

Theorem go_root_running H i c0 : i < 2 ^ H ->
  fst (add_leafT H i (go_run H i c0)) = mroot node z0 f H (S i).
Proof. intros Hi. apply go_root_any_cache; [exact Hi|]. apply go_run_inv. lia. Qed.

(* = what the DepositContract holds after its (i+1)-th deposit *)
Theorem go_root_is_contract_root H i c b0 : S i < 2 ^ H -> CacheInv H i c ->
  fst (add_leafT H i c) = dc_root node z0 H (Nat.testbit (S i)) (dc_after node f H (S i) b0).
Proof.
  intros Hi Hinv. rewrite (contract_root_is_merkle node z0 f H (S i) b0 Hi).
  apply go_root_any_cache; [lia|exact Hinv].
Qed.
End C01.

(* the leaf the node hashes for a deposit is the contract's getLeafValue of the same fields *)
Open Scope N_scope.
Theorem bridge_leaf_is_contract_leaf b : b_lt b < 256 ->
  bridge_leaf b = get_leaf_value (b_lt b) (b_onet b) (b_oaddr b) (b_dnet b) (b_daddr b) (b_amount b) (keccakN (b_meta b)).
Proof.
  intros Hlt. unfold bridge_leaf, bridge_leaf_preimage, get_leaf_value. f_equal.
  rewrite !be_fast_eq, keccakN_bytes. f_equal.
  cbn [be app]. rewrite N.mod_small by exact Hlt. reflexivity.
Qed.
