(* L-initcache: AppendOnlyTree.initCache re-establishes the frontier invariant from the stored nodes. *)
From Coq Require Import Arith Lia List Bool PeanoNat.
From Verif Require Import Model.Merkle Model.MerkleSpec Proofs.Frontier Proofs.Rht.
Import ListNotations.

Section Init.
Context {hash : Type}.
Variable node : hash -> hash -> hash.
Variable z0 : hash.
Variable f : nat -> hash.
Notation sub := (sub node z0 f).
Notation rht := (@rht hash).
Notation upd := (@upd hash).
Notation init_walk := (fun m h x idx c => init_walk m h x (Nat.testbit idx) c).
Notation Closed := (Closed node z0 f).
Notation CacheInv := (CacheInv node z0 f).
Lemma pred_div n h : n / 2^h = 2 * (n / 2^(S h)) + 1 -> (n - 1) / 2^(S h) = n / 2^(S h).
Proof.
  intros Hodd. pose proof (div_pow_bounds n h) as B. pose proof (div_pow_bounds n (S h)) as B2.
  assert (Hp : 0 < 2^h) by (apply Nat.neq_0_lt_0, Nat.pow_nonzero; lia).
  set (q := n / 2^(S h)) in *. set (p := 2^h) in *. cbn [Nat.pow] in B2. fold p in B2.
  symmetry. apply Nat.div_unique with (n - 1 - q * (2 * p)); cbn [Nat.pow]; fold p; nia.
Qed.

Lemma init_walk_spec H m n : Closed H m n -> 0 < n ->
  forall h c, h <= H -> exists c', init_walk m h (sub h ((n-1) / 2^h) n) (n-1) c = Some c' /\
    (forall h', h' < h -> c' h' = sub h' (2 * ((n-1) / 2^(S h'))) n) /\
    (forall h', h <= h' -> c' h' = c h').
Proof.
  intros Hc Hn. induction h as [|h IH]; intros c HhH; cbn [Merkle.init_walk].
  - exists c. split; [reflexivity|]. split; [lia|reflexivity].
  - pose proof (div_pow_bounds (n-1) (S h)) as Hb.
    rewrite (Hc h ((n-1) / 2^(S h))) by lia.
    assert (Hchild : (if Nat.testbit (n-1) h then sub h (2 * ((n-1) / 2^(S h)) + 1) n else sub h (2 * ((n-1) / 2^(S h))) n)
                     = sub h ((n-1) / 2^h) n).
    { rewrite testbit_div, div_succ_pow. destruct (Nat.odd ((n-1) / 2^h)) eqn:Ho.
      - rewrite <- (odd_div2 _ Ho). reflexivity.
      - rewrite <- (even_div2 _ Ho). reflexivity. }
    rewrite Hchild.
    destruct (IH (upd c h (sub h (2 * ((n-1) / 2^(S h))) n)) ltac:(lia)) as (c' & Hw & Hlow & Hhigh).
    exists c'. split; [exact Hw|]. split.
    + intros h' Hh'. destruct (Nat.eq_dec h' h) as [->|Hne].
      * rewrite Hhigh by lia. unfold upd. rewrite Nat.eqb_refl. reflexivity.
      * apply Hlow. lia.
    + intros h' Hh'. rewrite Hhigh by lia. unfold upd. destruct (Nat.eqb_spec h' h); [lia|reflexivity].
Qed.

(* restart / re-init establishes the frontier invariant *)
Theorem init_cache_inv m n H c : Closed H m n -> 0 < n -> n <= 2^H ->
  exists c', init_walk m H (sub H 0 n) (n-1) c = Some c' /\ CacheInv H n c'.
Proof.
  intros Hc Hn Hle.
  destruct (init_walk_spec H m n Hc Hn H c (le_n _)) as (c' & Hw & Hlow & _).
  rewrite Nat.div_small in Hw by lia.
  exists c'. split; [exact Hw|].
  intros h Hh Hb. rewrite (Hlow h Hh). f_equal.
  rewrite testbit_div in Hb. pose proof (odd_div2 _ Hb) as E. rewrite <- div_succ_pow in E.
  rewrite (pred_div n h E). lia.
Qed.
End Init.
