(* L-frontier: the append-only frontier algorithm computes the reference Merkle root and maintains
   the frontier invariant. No hypothesis on the hash. (nat-indexed theory; bit := Nat.testbit i) *)
From Coq Require Import Arith Lia List Bool PeanoNat.
From Verif Require Import Model.Merkle Model.MerkleSpec.
Import ListNotations.

Section Frontier.
Context {hash : Type}.
Variable node : hash -> hash -> hash.
Variable z0 : hash.
Variable f : nat -> hash.           (* leaf at index i *)
Notation zero := (zero node z0).
Notation sub := (sub node z0 f).
Notation upd := (@upd hash).
Notation climb := (fun fuel h i cur c => climb node zero fuel h (Nat.testbit i) cur c).
Notation add_leafT := (fun H i c => add_leaf node zero H (Nat.testbit i) (f i) c).

Definition CacheInv (H n : nat) (c : cache) : Prop :=
  forall h, h < H -> Nat.testbit n h = true -> c h = sub h (n / 2^h - 1) n.

Lemma sub_zero h : forall k n, n <= k * 2^h -> sub h k n = zero h.
Proof.
  induction h as [|h IH]; intros k n Hn; cbn [MerkleSpec.sub Merkle.zero].
  - rewrite Nat.pow_0_r, Nat.mul_1_r in Hn.
    assert (Ekn : k <? n = false) by (apply Nat.ltb_ge; lia). rewrite Ekn. reflexivity.
  - rewrite !IH; [reflexivity| |]; cbn [Nat.pow] in *; nia.
Qed.

Lemma sub_full h : forall k n m, (k+1) * 2^h <= n -> (k+1) * 2^h <= m -> sub h k n = sub h k m.
Proof.
  induction h as [|h IH]; intros k n m Hn Hm; cbn [MerkleSpec.sub].
  - rewrite Nat.pow_0_r, Nat.mul_1_r in Hn, Hm.
    assert (Ekn : k <? n = true) by (apply Nat.ltb_lt; lia).
    assert (Ekm : k <? m = true) by (apply Nat.ltb_lt; lia).
    rewrite Ekn, Ekm. reflexivity.
  - f_equal; apply IH; cbn [Nat.pow] in *; nia.
Qed.




Lemma testbit_div i h : Nat.testbit i h = Nat.odd (i / 2^h).
Proof. rewrite Nat.testbit_odd, Nat.shiftr_div_pow2. reflexivity. Qed.

Lemma div_succ_pow i h : i / 2^(S h) = (i / 2^h) / 2.
Proof.
  assert (2^h <> 0) by (apply Nat.pow_nonzero; lia).
  rewrite Nat.div_div by lia. f_equal. rewrite Nat.pow_succ_r'. lia.
Qed.

Lemma odd_div2 q : Nat.odd q = true -> q = 2 * (q / 2) + 1.
Proof.
  intros Ho. apply Nat.odd_spec in Ho. destruct Ho as [m ->].
  replace ((2 * m + 1) / 2) with m; [lia|]. apply Nat.div_unique with 1; lia.
Qed.
Lemma even_div2 q : Nat.odd q = false -> q = 2 * (q / 2).
Proof.
  intros Ho. rewrite <- Nat.negb_even in Ho. apply negb_false_iff in Ho.
  apply Nat.even_spec in Ho. destruct Ho as [m ->].
  replace (2 * m / 2) with m; [lia|]. apply Nat.div_unique with 0; lia.
Qed.

Lemma div_pow_bounds i h : (i / 2^h) * 2^h <= i < (i / 2^h + 1) * 2^h.
Proof.
  assert (2^h <> 0) by (apply Nat.pow_nonzero; lia).
  pose proof (Nat.div_mod i (2^h) H). pose proof (Nat.mod_upper_bound i (2^h) H). nia.
Qed.

(* what climb computes *)
Lemma climb_spec fuel : forall h i cur c,
  cur = sub h (i / 2^h) (S i) ->
  (forall h', h <= h' -> Nat.testbit i h' = true -> c h' = sub h' (i / 2^h' - 1) i) ->
  fst (climb fuel h i cur c) = sub (fuel + h) (i / 2^(fuel + h)) (S i).
Proof.
  induction fuel as [|fuel IH]; intros h i cur c Hcur Hc; cbn [Merkle.climb].
  - exact Hcur.
  - replace (S fuel + h) with (fuel + S h) by lia.
    destruct (Nat.testbit i h) eqn:Hb.
    + apply IH.
      * cbn [MerkleSpec.sub]. rewrite div_succ_pow. rewrite testbit_div in Hb.
        pose proof (odd_div2 _ Hb) as E.
        replace (2 * (i / 2 ^ h / 2) + 1) with (i / 2^h) by lia.
        rewrite <- Hcur. f_equal.
        rewrite (Hc h (le_n _)) by (rewrite testbit_div; exact Hb).
        replace (2 * (i / 2 ^ h / 2)) with (i / 2^h - 1) by lia.
        pose proof (div_pow_bounds i h).
        apply sub_full; replace (i / 2 ^ h - 1 + 1) with (i / 2^h) by lia; lia.
      * intros h' Hle Hb'. apply Hc; [lia|exact Hb'].
    + apply IH.
      * cbn [MerkleSpec.sub]. rewrite div_succ_pow. rewrite testbit_div in Hb.
        pose proof (even_div2 _ Hb) as E.
        replace (2 * (i / 2 ^ h / 2)) with (i / 2^h) by lia.
        rewrite <- Hcur. f_equal.
        symmetry. apply sub_zero. pose proof (div_pow_bounds i h). lia.
      * intros h' Hle Hb'. unfold upd.
        destruct (Nat.eqb_spec h' h) as [->|Hne]; [congruence|]. apply Hc; [lia|exact Hb'].
Qed.

Theorem add_leaf_root H i c :
  CacheInv H i c -> (forall h, H <= h -> Nat.testbit i h = false) ->
  fst (add_leafT H i c) = sub H (i / 2^H) (S i).
Proof.
  intros Hinv Hhi. unfold add_leaf.
  replace H with (H + 0) at 2 3 by lia.
  apply climb_spec.
  - cbn [MerkleSpec.sub]. rewrite Nat.pow_0_r, Nat.div_1_r.
    assert (E : i <? S i = true) by (apply Nat.ltb_lt; lia). rewrite E. reflexivity.
  - intros h' _ Hb. destruct (Nat.lt_ge_cases h' H) as [Hlt|Hge]; [apply Hinv; assumption|].
    rewrite Hhi in Hb by assumption. discriminate.
Qed.

(* the cache after climbing *)
Lemma climb_next h i cur c :
  cur = sub h (i / 2^h) (S i) ->
  (forall h', h <= h' -> Nat.testbit i h' = true -> c h' = sub h' (i / 2^h' - 1) i) ->
  (if Nat.testbit i h then node (c h) cur else node cur (zero h)) = sub (S h) (i / 2^(S h)) (S i).
Proof.
  intros Hcur Hc. pose proof (climb_spec 1 h i cur c Hcur Hc) as Hn. cbn [Merkle.climb Nat.add] in Hn.
  destruct (Nat.testbit i h); exact Hn.
Qed.

Lemma climb_cache_kept fuel : forall h i cur c h',
  (h' < h \/ fuel + h <= h' \/ Nat.testbit i h' = true) ->
  snd (climb fuel h i cur c) h' = c h'.
Proof.
  induction fuel as [|fuel IH]; intros h i cur c h' Hcase; cbn [Merkle.climb]; [reflexivity|].
  destruct (Nat.testbit i h) eqn:Hb.
  - apply IH. destruct Hcase as [?|[?|?]]; [left; lia|right; left; lia|right; right; assumption].
  - rewrite IH.
    + unfold upd. destruct (Nat.eqb_spec h' h) as [->|?]; [|reflexivity].
      destruct Hcase as [?|[?|?]]; [lia|lia|congruence].
    + destruct Hcase as [?|[?|?]]; [left; lia|right; left; lia|right; right; assumption].
Qed.

Lemma climb_cache_written fuel : forall h i cur c h',
  cur = sub h (i / 2^h) (S i) ->
  (forall h', h <= h' -> Nat.testbit i h' = true -> c h' = sub h' (i / 2^h' - 1) i) ->
  h <= h' < fuel + h -> Nat.testbit i h' = false ->
  snd (climb fuel h i cur c) h' = sub h' (i / 2^h') (S i).
Proof.
  induction fuel as [|fuel IH]; intros h i cur c h' Hcur Hc Hr Hb'; [lia|].
  pose proof (climb_next h i cur c Hcur Hc) as Hn.
  cbn [Merkle.climb]. destruct (Nat.testbit i h) eqn:Hb.
  - assert (h' <> h) by congruence.
    apply IH; [exact Hn| |lia|exact Hb'].
    intros h2 Hle Hb2. apply Hc; [lia|exact Hb2].
  - destruct (Nat.eq_dec h' h) as [->|Hne].
    + rewrite climb_cache_kept by (left; lia). unfold upd. rewrite Nat.eqb_refl. exact Hcur.
    + apply IH; [exact Hn| |lia|exact Hb'].
      intros h2 Hle Hb2. unfold upd. destruct (Nat.eqb_spec h2 h); [lia|]. apply Hc; [lia|exact Hb2].
Qed.

Lemma testbit_succ_cases i h :
  Nat.testbit (S i) h = true ->
  (Nat.testbit i h = true /\ S i / 2^h = i / 2^h) \/ (Nat.testbit i h = false /\ S i / 2^h = i / 2^h + 1).
Proof.
  intros Hb. rewrite !testbit_div in *.
  assert (Hp : 2^h <> 0) by (apply Nat.pow_nonzero; lia).
  pose proof (div_pow_bounds i h) as Bi. pose proof (div_pow_bounds (S i) h) as Bs.
  assert (S i / 2^h = i / 2^h \/ S i / 2^h = i / 2^h + 1) as [E|E] by nia.
  - left. split; [rewrite <- E; exact Hb|exact E].
  - right. split; [|exact E]. rewrite E in Hb. rewrite Nat.add_1_r, Nat.odd_succ in Hb.
    rewrite <- Nat.negb_even, Hb. reflexivity.
Qed.

Theorem add_leaf_preserves H i c :
  CacheInv H i c -> (forall h, H <= h -> Nat.testbit i h = false) ->
  CacheInv H (S i) (snd (add_leafT H i c)).
Proof.
  intros Hinv Hhi h Hh Hb. unfold add_leaf.
  assert (Hcur : f i = sub 0 (i / 2^0) (S i)).
  { cbn [MerkleSpec.sub]. rewrite Nat.pow_0_r, Nat.div_1_r.
    assert (E : i <? S i = true) by (apply Nat.ltb_lt; lia). rewrite E. reflexivity. }
  assert (Hc : forall h', 0 <= h' -> Nat.testbit i h' = true -> c h' = sub h' (i / 2^h' - 1) i).
  { intros h' _ Hb'. destruct (Nat.lt_ge_cases h' H) as [Hlt|Hge]; [apply Hinv; assumption|].
    rewrite Hhi in Hb' by assumption. discriminate. }
  destruct (testbit_succ_cases i h Hb) as [[Hbi E]|[Hbi E]].
  - rewrite climb_cache_kept by (right; right; exact Hbi).
    rewrite E, (Hinv h Hh Hbi).
    pose proof (div_pow_bounds i h). rewrite testbit_div in Hbi.
    assert (1 <= i / 2^h) by (destruct (i / 2^h); [discriminate|lia]).
    apply sub_full; replace (i / 2 ^ h - 1 + 1) with (i / 2^h) by lia; lia.
  - rewrite (climb_cache_written H 0 i (f i) c h Hcur Hc) by (try exact Hbi; lia).
    rewrite E. replace (i / 2 ^ h + 1 - 1) with (i / 2^h) by lia. reflexivity.
Qed.

Lemma CacheInv_0 H c : CacheInv H 0 c.
Proof. intros h _ Hb. rewrite Nat.bits_0 in Hb. discriminate. Qed.
End Frontier.

