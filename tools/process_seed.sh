#!/bin/bash
# usage: tools/process_seed.sh <dir produced by a seeding sub-agent> <PROPERTY ID> [more property ids whose checks should also be run]
# Copies the seed to /verif/seeded/<name>/, confirms it independently (tools/confirm_seed.sh) and runs the check(s) against it
# (tools/seedtest.sh). Results are written to seeded/<name>/confirm.json and seeded/<name>/detect_<ID>.txt.
set -u
SRC=$1; PID=$2; shift 2
NAME=$(basename "$SRC")
DST=/verif/seeded/$NAME
mkdir -p "$DST"
cp "$SRC"/patch.diff "$SRC"/README.md "$DST"/ 2>/dev/null
cp "$SRC"/zz_seed_demo_*_test.go "$DST"/ 2>/dev/null
cd /verif
tools/confirm_seed.sh "$DST" > "$DST/confirm.json" 2>"$DST/confirm.err"
cat "$DST/confirm.json"
for id in $PID "$@"; do
  tools/seedtest.sh "$DST" "$id" > "$DST/detect_$id.txt" 2>&1
  echo "== $NAME vs $id: rc=$? $(grep -c '^VIOLATION' "$DST/detect_$id.txt") violation line(s)"; grep -E "^VIOLATION|^C[0-9]+ tier" "$DST/detect_$id.txt" | cut -c1-220
done
