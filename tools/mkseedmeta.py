#!/usr/bin/env python3
"""Writes seeded/<name>/meta.json for the third-wave seeds from what tools/process_seed.sh recorded (confirm.json, detect_<ID>.txt),
the README the seeding sub-agent wrote, and the notes below (what had to be strengthened). usage: mkseedmeta.py [names...]"""
import glob
import json
import os
import re
import sys

VERIF = os.path.dirname(os.path.dirname(os.path.abspath(__file__)))

# first-run outcome and strengthening, where the first run of the check did not give a concrete failing input
NOTES = {
    "C16_3": ("caught at first run by the FEP-mode part added in this session (before it, FEP mode was not covered at all)", ""),
    "C06_4": ("MISSED at first run",
              "op g added to harness/c06: graceful stop (context cancelled) while a reorg is being handed over, Reorg failing with the "
              "context's error; the node is given the time to acknowledge (patched code) or to keep retrying (unchanged code) before "
              "the restart; same model step as the hard kill (ECrashNotify)"),
    "C02_4": ("only no-failing-input-found at first run (rows differ from the model's retry count)",
              "aggsender harness: KeepCertificatesHistory on in half of the cases + directed scenario (size limit, new blocks between two "
              "InError verdicts, epoch tick while the second replacement is pending)"),
    "C03_3": ("MISSED at first run",
              "aggsender harness: L2 reorg steps (real bridgesync Reorg of blocks that no live certificate covers) + executable ext_reorg in "
              "Model/C02Cases.v (correspondence only; the proved protocol model has no reorg event)"),
    "C08_4": ("MISSED at first run",
              "bridge harness: readers that ask for the in-flight block's exit roots / proofs / root-by-LER while its transaction is open "
              "(slow statement + shadow processor that supplies the roots); the same questions after the commit must be answered like the twin"),
    "C09_4": ("only no-failing-input-found at first run (source-fact obligation on the order of statements in PPFlow.GetCertificateBuildParams)",
              "C09 harness: every third case with two or more L2 blocks starts from a certificate database that holds an InError "
              "certificate of height 0 built against the oldest recorded L1 info root (the flow then builds its replacement)"),
    "C19_3": ("only no-failing-input-found at first run (the encoder returned a negative big.Int, which the glue could not transcribe)",
              "props/c19.py transcribes a negative value as 2^300 + |v| (equal to no expected value); harness/c19 recovers from panics per case"),
    "C19_4": ("only no-failing-input-found at first run (harness crashed on the wire message without a global index)",
              "harness/c19 observes a missing global index as an empty value instead of dereferencing it"),
    "C17_3": ("no result at first run: the changed size cut walks the block range one block at a time before looking at the size, the harness "
              "did not return on a range of 2^63 blocks",
              "harness/c17 runs every case under a 10 s watchdog and observes a call that does not return as the error `timeout` "
              "(also a maximality violation on the FEP cases, as the seed intended)"),
    "C01_5": ("MISSED at first run (the bridge was always deployed with ether as gas token)",
              "harness/evm: every second random case deploys the bridge with a custom gas token (initialize(gasTokenAddress != 0, "
              "metadata)); native bridgeAsset deposits then carry the gas token's origin in the event"),
    "C01_6": ("MISSED at first run (longest history had about 250 deposits; the list GetBridges returns was compared with the model only)",
              "harness/bridge: one history of 552 deposits in blocks of 3, 6, 4, 6, 5 deposits (a batch boundary never falls on a block "
              "boundary for the usual batch sizes); spec_c01 now also requires GetBridges(0, last) to list exactly the processed deposits, "
              "in order, each hashing to the contract's leaf value"),
    "C16_5": ("only no-failing-input-found at first run (source fact on the dead type assertion / the loop shape)",
              "harness/c16 -prop fep: boundary case with 260 L1 info leaves of which only leaves 130 and 250 are injected"),
    "C03_5": ("MISSED by C03 at first run (caught by C20: same change as C20_5): the aggsender harness hands claim EVENTS to the bridge store",
              "C03 has a second part (props/c03_claims.py): C20's harness stream (ClaimEvent logs through the real handlers and the real "
              "calldata search, mixed multi-claim transactions) judged by C20Cases.spec, reported under C03"),
    "C20_5": ("caught at first run by C20; by C03 after the claim-record part was added (see C03_5)", ""),
    "C12_5": ("MISSED at first run by C12 and by C08 (equal deposits occurred, but none on two positions of the same parity within a surviving history)",
              "harness/bridge: a deposit equals the one two counts earlier one time in five, and C08 starts with a directed history of two "
              "alternating deposit contents (equal leaves on positions 0, 2, 4, 8 and 1, 3, 5, 6, 7, 9); harness/c12: a deposit equals the one two "
              "counts earlier one time in four"),
    "C02_5": ("MISSED at first run (no certificate spanned more than a few dozen blocks)",
              "aggsender harness: scenario `wide-range` (both flows): two certificates that each span 10001 blocks, with bridges and claims in the "
              "blocks at distance 100, 256, 500, 1000, 1024, 2000, 2048, 4096, 5000, 8192, 10000, 10001 from the first block"),
    "C07_6": ("caught at first run by C07 (not by C11, whose histories have no storage faults)", ""),
    "C05_5": ("MISSED at first run (chains of at most 40 blocks, chunk sizes up to 100)",
              "harness/c05: four directed wide-range cases (3100 / 4100 / 2100 blocks; chunk sizes 500, 1000, 2000 and, with chunk 100, a finalized "
              "pointer that jumps ahead of a long unsafe stretch), watched events every 50 blocks and on the blocks around every multiple of 1000"),
    "C09_6": ("MISSED by C09 at first run (caught by C20): the C09 harness hands claim EVENTS to the bridge store",
              "C09 has a second part (props/c03_claims.py run under C09): C20's harness stream (real ClaimEvent handlers and calldata search, mixed "
              "multi-claim transactions with a mainnet and a rollup-0 claim of the same deposit number) judged by C20Cases.spec"),
    "C05_6": ("only no-failing-input-found at first run (the mock node gave every log its own transaction, so ordering by TxIndex was log order)",
              "harness/c05: the mock node puts two logs into each transaction (TxIndex = log index / 2), as when several watched contracts log in one transaction"),
    "C13_6": ("only no-failing-input-found at first run (three random cases differed from the model; no scenario had a locally closed record that the Agglayer reopened)",
              "harness/c13: scenario cases in which the local record says InError while the Agglayer holds the same certificate as pending / proven / "
              "candidate / settled (12 cases): the record must follow the Agglayer and no replacement may be built while it is undecided"),
    "C14_6": ("only no-failing-input-found at first run (facade queries were asked with zero arguments only, which no earlier lookup could have answered)",
              "harness/c14: every query that takes a hash is also asked with each hash the facade itself returned in healthy states (up to six: exit "
              "roots, L1 info roots, global exit roots ...); data from any of them while halted is data"),
    "C04_5": ("MISSED at first run (equal deposits occurred, but no dropped fork repeated a whole surviving subtree)",
              "harness/bridge: directed C04 history in which deposits 0,1 = (a, b) survive and deposits 2,3 = (a, b) plus one more are dropped, all "
              "proofs of all surviving roots asked, then the new fork"),
    "C06_6": ("MISSED by C06 at first run (caught by C05): the C06 harness always built the downloader on LatestBlock",
              "harness/c06: free-running histories of a syncer on SafeBlock with finalized type FinalizedBlock (mode SF, separate random stream)"),
    "C10_6": ("MISSED at first run (the prover's proof bytes were empty in one case out of 48 only)",
              "harness/c10: two FEP cases whose aggchain proof has empty proof bytes (separate random stream)"),
    "C15_6": ("MISSED by C15 and C11 at first run; the change is in the L1 info tree syncer (a leaf removed by a reorg is still served)",
              "(1) harness/l1info (C04 part): directed history whose reorg starts exactly at the newest leaf's block, the new fork carrying no leaf "
              "up to the queried blocks => reported by C04. (2) C15 extended to L1 reorgs: Model/C15Reorg.v (runs over a history that changes "
              "between ticks), Proofs/OracleReorgProofs.v (run safety theorems for every such run), harness/c15 stream 'reorg' (the real "
              "processor's Reorg under the real oracle tick) => reported by C15 itself with a concrete failing schedule"),
    "C10_5": ("only no-failing-input-found by C10 at first run (caught concretely by C19): for certificates with anything non-canonical the wire was not compared",
              "spec_wire (Model/C10Cases.v): also for non-canonical certificates the global index WORD of every imported exit on the wire must be "
              "the number both commitments cover (GenerateGlobalIndex: a set mainnet flag clears the rollup index)"),
    "C15_5": ("only no-failing-input-found at first run (a scripted L1 error failed every request of the tick, which hides a fallback to another request)",
              "harness/c15: a tick can fail only the FIRST request to the L1 client (every second failing tick of the random stream, two boundary "
              "cases with unfinalized roots above the finalized block and the syncer ahead)"),
    "C03_7": ("MISSED by C03 at first run (reported by C09, whose cases have several claims per global exit root): every generated claim had exit roots of its own, so grouping by root kept the order",
              "harness/aggsender: every third claim is made against the global exit root of the claim two claims back (A, B, A), with no additional random draw"),
    "C06_8": ("HIDDEN at first run: its three failing cases contain the witness-only stop between AddBlockToTrack and ProcessBlock, and the check counted every failing case with that stop as the recorded finding F10",
              "tools/vlib.py + known_findings.json: F10 carries `model_reproduces`: a failing case counts as that finding only when the implementation still does, step by step, what the model of the "
              "code as written predicts for it (correspondence holds); when it does not, the failure is a different one and is reported - as the interface demands (a different violation of the "
              "same property is still reported)"),
    "C07_7": ("MISSED at first run: every injected fault was a RAISE(ABORT) (the code's own rollback succeeds and runs the callbacks) or a cancellation followed by a restart; no transaction was "
              "lost WITHOUT the callbacks and then retried on the same instance",
              "harness/bridge + harness/l1info: fault kind RB (every second non-cancel fault, no extra random draw): the failing statement raises ROLLBACK, SQLite rolls the "
              "transaction back itself, db.Tx.Rollback returns an error before the rollback callbacks, the tree keeps its advanced frontier, the driver's retry runs on the same "
              "instance. The model needs no new case: after such a loss the unchanged AddLeaf sees the index mismatch and rebuilds the cache, which is what the model's rollback "
              "(cache invalidated) predicts"),
    "C07_8": ("only no-failing-input-found at first run (same gap as C07_7: no lost transaction retried on the same instance)",
              "the RB fault kind in harness/l1info (C07's L1 info tree part) => concrete failing input"),
    "C10_7": ("MISSED at first run: every case built its certificate once, with fresh build parameters",
              "harness/c10: before the attempt that is observed the same flow object builds once with the SAME build-parameters object (the aggchain proof that is stored with a "
              "certificate and handed over again when its replacement is built) over different content; what that leaves behind must not show"),
    "C14_8": ("MISSED at first run: the check drives facades built around ONE processor (as every unit test does); the change is in the wiring of l1infotreesync.New (a second processor for the facade)",
              "tools/gofacts + Properties/C14.v: source-fact obligation src_one_processor_per_syncer (each constructor creates one processor and hands the same object to the driver and to the "
              "facade) => reported as a broken obligation, no-failing-input-found: the harness has no route through the real New + driver wiring over a scripted L1 (recorded as a limit in DESIGN I.6)"),
    "C15_7": ("only no-failing-input-found at first run (obligation: the translated tick no longer equals the model; 1 mismatch): no schedule put a root on L2 between a failed injection and its retry",
              "harness/c15: one boundary schedule (an injection fails; before the next tick the root is on L2 after all; then a failure that left nothing behind and its retry)"),
    "C08_7": ("MISSED by C08 at first run (reported by C11, which mirrors the rollup exit tree): C08's harness served proofs of the bridge exit tree only",
              "props/c08 + props/l1info_common.run_c08_part: the C08 check also serves and re-verifies every proof of the L1 info tree and of the rollup exit tree "
              "(the updatable tree) through the real l1infotreesync processor on the L1 histories of the C11 check"),
    "C05_9": ("not reported by C05 (its harness drives the sync package's downloader and driver over a recording store; the change is inside the l1infotreesync processor); reported by C07's L1 info "
              "tree part (storage fault, then the driver's retry) with a concrete failing input",
              ""),
    "C05_8": ("only no-failing-input-found at first run (754 correspondence mismatches: an extra empty block per removed log): the scripted node gave removed logs the canonical block hash",
              "harness/c05: every second removed log carries the hash of the block it was removed from (an orphan hash), as a real node reports it; "
              "the unchanged downloader drops removed logs before it looks at them, so nothing else moves"),
    "C09_7": ("MISSED at first run: the check drove the PP flow and the direct build only; the guard of the aggchain-prover flow (CheckIfClaimsArePartOfFinalizedL1InfoTree) was not exercised",
              "harness/c09 + Model/C09Cases.v: for every case with a named root the real guard is asked about (root, claims) and spec demands that it accepts "
              "iff every claim's global exit root is a leaf that root covers (the guard is what puts that flow's certificates inside the quantifier)"),
    "C09_8": ("MISSED at first run: one attempt per querier, so nothing an earlier attempt leaves behind could matter",
              "harness/c09: every suitable case again after a warm-up attempt made by the same querier / flow while the node reported the first L1 block as "
              "finalized, once as scripted and once with the finalized query failing; the node's finalized block is now part of the case also when the "
              "query for it fails (i_fin_fails), so spec judges a certificate built on a stale pointer against the true finalized history"),
    "C11_8": ("not reported by C11 at first run (its stream has no reorgs: the property's quantifier is L1 histories; reorgs are C04's); reported by C04's L1 info "
              "tree part with a concrete failing input",
              "harness/l1info: a directed C11 history (two rollups verified with the same exit root in different blocks, the later block reorganised away, "
              "further verifications on the new fork) => C11 reports the broken correspondence (no-failing-input-found: spec_c11 is stated for histories "
              "without reorgs); the concrete failing input is C04's"),
    "C16_7": ("MISSED at first run: the largest jump of the tip between two polls was exactly 5000 blocks, the change caps a query at 5000 blocks and skips the rest",
              "harness/c16: two fixed histories whose tip jumps by 5001 blocks under a running downloader and by 7000 blocks at a restart, roots and a removal "
              "in every thousand of the gap"),
    "C16_8": ("MISSED by C16 at first run (reported by C07's GER-store part, which injects storage faults): the C16 histories had no storage fault",
              "harness/c16: cases with Faults (every fixed history that removes a root, and every eighth random one): the first attempt to process each "
              "event-carrying block meets an aborting insert / delete of imported_global_exit_root (SQL trigger armed around that one attempt - no "
              "timers), the driver's retry finds the store healthy; a processor that swallows the failure has committed the block without its event"),
    "C17_5": ("MISSED by C17 at first run (C02 reported a broken correspondence, no failing input): the cut was only driven through limitCertSize itself",
              "harness/c17 kind 'flow': every limit case whose certificate the flow can build (first block >= 1, a first certificate is no retry) is "
              "also run through the real NewBaseFlow(...).GetCertificateBuildParamsInternal with stub storage / L2 syncer, and compared with the same "
              "model cut of the fully built certificate"),
    "C08_5": ("MISSED at first run: cases ran one after the other, the change is a keccak state shared by all trees of the process (data race)",
              "props/c08: the bridge harness runs 4 cases concurrently in one process (-par 4, as C01 already did; every case is deterministic on "
              "its own, so the unchanged tree cannot alarm) next to two neighbour trees that keep appending leaves in databases of their own; a "
              "replayed case runs next to 3 copies of itself. Detection is probabilistic by nature: without the neighbour trees 4 of 5 runs of "
              "tools/seedtest.sh reported it (1-2 of 7 cases each), with them 6 of 6 (3-7 of 7 cases each)"),
    "C08_6": ("MISSED by C08 at first run: no reorganised deposit repeated content lying under a surviving root",
              "harness/bridge: two directed C08 histories (the same bridge four times in a row / the pair (a, b) twice, the fourth deposit reorganised "
              "away, all proofs of all surviving roots asked, then the new fork)"),
    "C16_4": ("caught at first run by C16; MISSED by the GER-store part of C04",
              "C04 GER-store part: every query is now also asked right before each reorg"),
}


def main():
    names = sys.argv[1:] or sorted(os.path.basename(d) for d in glob.glob(os.path.join(VERIF, "seeded", "C*_[3-9]")) + glob.glob(os.path.join(VERIF, "seeded", "C*_1[0-9]")))
    for name in names:
        d = os.path.join(VERIF, "seeded", name)
        if not os.path.exists(os.path.join(d, "confirm.json")):
            print("skip", name, "(not confirmed yet)")
            continue
        try:
            confirm = json.load(open(os.path.join(d, "confirm.json")))
        except json.JSONDecodeError:
            print("skip", name, "(confirm.json unreadable)")
            continue
        readme = open(os.path.join(d, "README.md")).read()
        title = readme.split("\n", 1)[0].lstrip("# ").strip()
        m = re.search(r"(?is)#+\s*(what it needs[^\n]*|needs[^\n]*)\n(.*?)(\n#+\s|\Z)", readme)
        needs = re.sub(r"\s+", " ", m.group(2)).strip()[:1200] if m else ""
        prop = name.split("_")[0]
        det = {}
        for f in sorted(glob.glob(os.path.join(d, "detect_*.txt"))):
            pid = os.path.basename(f)[len("detect_"):-4]
            txt = open(f).read()
            vio = [l for l in txt.split("\n") if l.startswith("VIOLATION")]
            det[pid] = ("concrete failing input" if any("no-failing-input-found" not in l for l in vio)
                        else "no-failing-input-found" if vio else "not reported")
        first, strengthening = NOTES.get(name, ("caught at first run", ""))
        # the check that reports the change with a concrete failing input: the one of its own property, else another recorded one
        by = prop
        if det.get(prop) != "concrete failing input":
            others = [k for k, v in sorted(det.items()) if v == "concrete failing input"]
            if others:
                by = others[0]
        meta = {
            "seed": name, "property": prop, "title": title,
            "needs_to_manifest": needs,
            "origin": "written by an independent sub-agent that saw only the property text and its own scratch worktree of /repo (nothing from /verif)",
            "confirmed_by_main": {
                "patch_applies_to_repo_HEAD": confirm.get("applies"), "go_build_ok": confirm.get("builds"),
                "demo_fails_with_patch": confirm.get("demo_fails_with_patch"), "demo_passes_without_patch": confirm.get("demo_passes_without"),
                "existing_suite_unexpected_failures_with_patch": confirm.get("unexpected_failing_tests_with_patch"),
                "how": "tools/process_seed.sh -> tools/confirm_seed.sh: scratch worktree of /repo HEAD, git apply, go build ./..., full `go test -vet=off "
                       "-count=1 ./...` (ignoring TestBridgeCallData, TestClaimCalldata, TestWithReorgs; tests failing in the loaded full run re-run "
                       "alone; TestStartProfilingHttpServer binds the fixed port 6060 and fails whenever two suites run at once: environmental), "
                       "demo test with and without the patch",
            },
            "detection": {"check": by, "first_run": first, "strengthening": strengthening,
                          "recorded_runs_of_tools_seedtest": det,
                          "now": ("tools/seedtest.sh /verif/seeded/%s %s => VIOLATION property=%s with a concrete failing input (replay)" % (name, by, by))
                          if det.get(by) == "concrete failing input" or not det else
                          ("tools/seedtest.sh /verif/seeded/%s %s => VIOLATION property=%s ... no-failing-input-found (a proof obligation / the correspondence "
                           "no longer checks; no concrete failing input is produced)" % (name, by, by))},
        }
        json.dump(meta, open(os.path.join(d, "meta.json"), "w"), indent=1)
        print("wrote", name, det)


if __name__ == "__main__":
    main()
