#!/bin/bash
# usage: tools/seedtest.sh <seed dir with patch.diff> <PROPERTY ID> [extra bin/check args]
# Applies the patch to a private worktree of /repo HEAD, runs the check from a private copy of /verif against it.
set -u
SEED=$1; PID=$2; shift 2
TAG=$(basename "$SEED")_$$
WT=/tmp/wt_st_$TAG; VC=/tmp/verif_st_$TAG
git -C /repo worktree add --detach "$WT" HEAD >/dev/null 2>&1 || { echo "worktree failed"; exit 2; }
if ! git -C "$WT" apply "$SEED/patch.diff"; then echo "PATCH DOES NOT APPLY"; git -C /repo worktree remove --force "$WT"; exit 2; fi
rsync -a --exclude .git --exclude replays --exclude 'build/C*' /verif/ "$VC"/
( cd "$VC" && VERIF_REPO="$WT" timeout 1500 bin/check "$PID" "$@" 2>&1 | grep -E "^(VIOLATION|KNOWN|C[0-9]+ tier)" )
RC=$?
# keep the replay files for inspection
mkdir -p /tmp/seedtest_replays/"$(basename "$SEED")" && cp "$VC"/replays/* /tmp/seedtest_replays/"$(basename "$SEED")"/ 2>/dev/null
git -C /repo worktree remove --force "$WT"; rm -rf "$VC"
exit $RC
