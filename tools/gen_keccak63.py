#!/usr/bin/env python3
# Generates an unrolled Keccak-256 over Coq primitive Uint63 (each 64-bit lane = hi/lo 32-bit halves).
# Usage: python3 gen_keccak63.py > Keccak63.v ; measured 0.2 ms/hash under vm_compute (Coq 8.16.1).
ROT=[0,1,62,28,27,36,44,6,55,20,3,10,43,25,39,41,45,15,21,8,18,2,61,56,14]
RC=[0x0000000000000001,0x0000000000008082,0x800000000000808A,0x8000000080008000,0x000000000000808B,0x0000000080000001,0x8000000080008081,0x8000000000008009,0x000000000000008A,0x0000000000000088,0x0000000080008009,0x000000008000000A,0x000000008000808B,0x800000000000008B,0x8000000000008089,0x8000000000008003,0x8000000000008002,0x8000000000000080,0x000000000000800A,0x800000008000000A,0x8000000080008081,0x8000000000008080,0x0000000080000001,0x8000000080008008]
def rot(h,l,r):
    if r==0: return h,l
    if r==32: return l,h
    if r>32: h,l,r=l,h,r-32
    return (f"((({h} << {r}) lor ({l} >> {32-r})) land m32)", f"((({l} << {r}) lor ({h} >> {32-r})) land m32)")
out=[]
out.append("From Coq Require Import Uint63 List NArith ZArith.\nImport ListNotations.\nOpen Scope uint63_scope.\nDefinition m32 : int := 4294967295.")
fields=" ".join(f"h{i} l{i}" for i in range(25))
out.append("Inductive st := St (" + fields + " : int).")
lines=[f"Definition round (s : st) (rh rl : int) : st :=\n  match s with St {fields} =>"]
for x in range(5):
    hs=" lxor ".join(f"h{x+5*y}" for y in range(5)); ls=" lxor ".join(f"l{x+5*y}" for y in range(5))
    lines.append(f"  let ch{x} := {hs} in let cl{x} := {ls} in")
for x in range(5):
    rh,rl=rot(f"ch{(x+1)%5}",f"cl{(x+1)%5}",1)
    lines.append(f"  let dh{x} := ch{(x+4)%5} lxor {rh} in let dl{x} := cl{(x+4)%5} lxor {rl} in")
for i in range(25):
    lines.append(f"  let th{i} := h{i} lxor dh{i%5} in let tl{i} := l{i} lxor dl{i%5} in")
for x in range(5):
    for y in range(5):
        src=x+5*y; dst=y+5*((2*x+3*y)%5)
        rh,rl=rot(f"th{src}",f"tl{src}",ROT[src])
        lines.append(f"  let bh{dst} := {rh} in let bl{dst} := {rl} in")
for y in range(5):
    for x in range(5):
        i=x+5*y; i1=(x+1)%5+5*y; i2=(x+2)%5+5*y
        eh=" lxor rh" if i==0 else ""; el=" lxor rl" if i==0 else ""
        lines.append(f"  let nh{i} := bh{i} lxor ((bh{i1} lxor m32) land bh{i2}){eh} in let nl{i} := bl{i} lxor ((bl{i1} lxor m32) land bl{i2}){el} in")
lines.append("  St "+" ".join(f"nh{i} nl{i}" for i in range(25)))
lines.append("  end.")
out.append("\n".join(lines))
rcs="; ".join(f"({(c>>32)&0xffffffff}, {c&0xffffffff})" for c in RC)
out.append(f"Definition RC : list (int*int) := [{rcs}].")
out.append("Definition keccakf (s : st) : st := fold_left (fun s rc => round s (fst rc) (snd rc)) RC s.")
out.append("""Definition le4 (bs : list int) : int :=
  match bs with b0 :: b1 :: b2 :: b3 :: _ => b0 lor (b1 << 8) lor (b2 << 16) lor (b3 << 24) | _ => 0 end.
Fixpoint lanes (n : nat) (bs : list int) : list (int*int) :=
  match n with O => [] | S k => (le4 (skipn 4 bs), le4 bs) :: lanes k (skipn 8 bs) end.
Definition g (l : list (int*int)) (i : nat) := nth i l (0,0).""")
ab=["Definition absorb (s : st) (blk : list int) : st :=\n  let L := lanes 17 blk in\n  match s with St "+fields+" =>\n  keccakf (St"]
for i in range(25):
    ab.append(f"    (h{i} lxor fst (g L {i})) (l{i} lxor snd (g L {i}))" if i<17 else f"    h{i} l{i}")
ab.append("  ) end.")
out.append("\n".join(ab))
out.append("""Definition bytes4 (x : int) : list int := [x land 255; (x >> 8) land 255; (x >> 16) land 255; (x >> 24) land 255].
Definition squeeze (s : st) : list int := match s with St """+fields+""" =>
  bytes4 l0 ++ bytes4 h0 ++ bytes4 l1 ++ bytes4 h1 ++ bytes4 l2 ++ bytes4 h2 ++ bytes4 l3 ++ bytes4 h3 end.
Fixpoint chunks (k fuel : nat) (l : list int) : list (list int) :=
  match fuel with O => [] | S f => match l with [] => [] | _ => firstn k l :: chunks k f (skipn k l) end end.
Definition rate := 136%nat.
Definition pad (m : list int) : list int :=
  let q := Nat.sub rate (Nat.modulo (length m) rate) in
  if Nat.eqb q 1 then m ++ [129] else m ++ [1] ++ repeat 0 (Nat.sub q 2) ++ [128].
Definition st0 := St """+" ".join("0 0" for _ in range(25))+""".
Definition keccak256 (m : list int) : list int :=
  let p := pad m in squeeze (fold_left absorb (chunks rate (S (length p)) p) st0).
Definition toN (l : list int) : N := fold_left (fun acc b => (acc * 256 + Z.to_N (to_Z b))%N) l 0%N.
Example keccak_empty : N.eqb (toN (keccak256 [])) 0xc5d2460186f7233c927e7db2dcc703c0e500b653ca82273b7bfad8045d85a470%N = true.
Proof. vm_compute. reflexivity. Qed.
""")
print("\n".join(out))
