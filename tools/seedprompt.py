#!/usr/bin/env python3
"""Prints the prompt handed to an independent seeding sub-agent: the property's text only (nothing from /verif's
machinery), its scratch worktree, the offline Go recipe, and the deliverables.  usage: seedprompt.py <ID> <n1> <n2> [focus]"""
import json
import sys

pid, n1, n2 = sys.argv[1], sys.argv[2], sys.argv[3]
focus = sys.argv[4] if len(sys.argv) > 4 else ""
prop = None
for line in open("/verif/properties.jsonl"):
    p = json.loads(line)
    if p["id"] == pid:
        prop = p
wt = "/tmp/seed3_wt_%s" % pid
out = "/tmp/seed3_out"
print(f"""You are helping to test a verification setup for the Go project agglayer/aggkit (a node that syncs EVM bridge and
L1-info-tree events into SQLite Merkle trees, handles reorgs, builds and signs certificates for the Agglayer).

Your scratch git worktree of the project is {wt} (already created; work ONLY there; never touch /repo or /verif, do not
read anything under /verif). Go recipe for every shell call (the sandbox is offline):

    export PATH=/root/go/pkg/mod/golang.org/toolchain@v0.0.1-go1.24.4.linux-amd64/bin:$PATH GOFLAGS=-mod=mod GOPROXY=off GOSUMDB=off GOTOOLCHAIN=local
    cd {wt} && go build ./... && go test -vet=off -count=1 ./<pkg>/

Here is a semantic property the project is supposed to satisfy (JSON):

{json.dumps(prop, indent=1)}

TASK. Produce TWO independent source changes (call them {pid}_{n1} and {pid}_{n2}), each of which
 * breaks this property (some sentence of its statement becomes false for some input / history / schedule / fault
   sequence inside its quantifier),
 * still compiles (`go build ./...`) and still passes the project's EXISTING test suite unedited
   (`go test -vet=off -count=1 ./...`; the tests TestBridgeCallData, TestClaimCalldata and TestWithReorgs are known to be
   flaky/offline failures and may be ignored; the full suite takes a while, run it once per change at the end, and run the
   affected packages first),
 * looks like a plausible regression a maintainer could introduce (a refactoring, an "optimisation", a cache, a wrong
   boundary, a reordered statement, an error swallowed, two cooperating sites that each look fine alone ...),
 * needs something SPECIFIC to manifest: a particular interleaving, a crash or fault at a particular point, a multi-step
   sequence of operations, an unusual input, a restart at a particular moment, or two cooperating sites. A change that any
   ordinary use exposes at once is NOT wanted.
The two changes must use different mechanisms in different functions. Touch only non-test .go files (no test files, no
files guarded by the build tag `verif`, no generated bindings, no migrations unless essential).{(" Preferably look at: " + focus) if focus else ""}

For each change ALSO write a demonstration: one Go test file named zz_seed_demo_{pid}_<n>_test.go (test function
TestSeedDemo{pid}_<n>) placed inside the relevant package of the worktree, which FAILS with the change applied and PASSES
on the unchanged code. The demo must exercise the real code (no re-implementation of it) and assert the property's
sentence, not an implementation detail. Verify both directions yourself.

DELIVERABLES, per change, in {out}/{pid}_<n>/ :
  patch.diff   - `git diff` of the source change only (NOT the demo test), applying with `git apply` to the worktree's HEAD
  zz_seed_demo_{pid}_<n>_test.go - the demo test
  README.md    - title line; the change and why it looks plausible; which sentence of the property it breaks; what it needs in
                 order to manifest; the path where the demo test file must be placed (e.g. `sync/zz_seed_demo_{pid}_<n>_test.go`);
                 the commands you ran and their outcome (build, affected-package tests, full suite with the patch, demo with/without)
Never use `git stash` (the stash is shared between all worktrees of the repository; use `git diff > file` / `git apply -R file` / `git checkout -- .` instead).
Leave the worktree clean at the end (`git -C {wt} checkout -- . && git -C {wt} status --short` prints nothing; remove the demo
files from it after copying them out). Reply with a short summary: for each change the title, files touched, what it needs to
manifest, and the confirmation results. If you cannot find a second valid change, deliver one and say so.""")
