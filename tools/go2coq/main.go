// go2coq: translates a side-effect-free fragment of Go (unsigned integer arithmetic, float64 quotients and comparisons,
// booleans, value structs, if / return / assignment) into Gallina definitions over N / bool / Flocq binary64.
// It is run by every check (tools/vlib.py regen_facts) on /repo's CURRENT source; its output, coq/theories/Gen/Gen*.v,
// is what the agreement theorems of coq/theories/Proofs/GenAgree*.v are re-proved against.
//
// Supported statements: `x := e`, `x = e`, `a, b := f(..)`, `s.f = e`, `if c { .. } [else { .. }]`, `return ..`.
// Calls on a logger (and variables holding logger methods) are dropped: they have no effect on the results.
// uint64 / uint arithmetic wraps (Base/GoNum.v u64_add, u64_sub, u64_mul); `/` on integers is N.div.
// Anything else makes the translator fail with a message naming the construct: the generated file is then missing and
// the proofs that import it break, which the check reports.
package main

import (
	"fmt"
	"go/ast"
	"go/constant"
	"go/parser"
	"go/token"
	"go/types"
	"math/big"
	"os"
	"path/filepath"
	"sort"
	"strconv"
	"strings"
)

type kind int

const (
	kInt kind = iota
	kZ
	kFloat
	kBool
	kStruct
	kOpt
	kTuple
	kLog
	kHash
	kList
	kErr
	kRaw // a Section variable whose Coq type is written out in name
	kUnknown
)

type ty struct {
	k    kind
	name string // struct name
	sub  []ty
}

func (t ty) coq() string {
	switch t.k {
	case kInt:
		return "N"
	case kZ:
		return "Z"
	case kFloat:
		return "f64"
	case kBool:
		return "bool"
	case kStruct:
		return t.name
	case kOpt:
		return "(option " + t.sub[0].coq() + ")"
	case kHash:
		return "hash"
	case kErr:
		return "gerr"
	case kList:
		return "(list " + t.sub[0].coq() + ")"
	case kTuple:
		var p []string
		for _, s := range t.sub {
			p = append(p, s.coq())
		}
		return "(" + strings.Join(p, " * ") + ")"
	case kRaw:
		return t.name
	case kUnknown:
		if strings.Contains(t.name, "->") { // a Section variable with a written-out type (lookup oracle)
			return t.name
		}
	}
	return "_"
}

type field struct {
	name string
	t    ty
}
type structDef struct {
	name   string
	fields []field
}

type target struct {
	File    string   // relative to the repository root
	Out     string   // generated .v file name (in coq/theories/Gen)
	Module  string   // comment title
	Structs []string // struct types to translate into records
	Funcs   []string // functions / methods, in dependency order ("Recv.Method" or "func")
	Ctx     string   // receiver type treated as a context: selector chains rooted at it become Section variables
	// Hash: the file computes over common.Hash values: they become an abstract type `hash` with a binary function `hash2`
	// (Keccak-256 of the concatenation) and a default element `hash0` (array reads); Section variables of the output
	Hash bool
	// StructsFrom: struct name -> file (relative to the repository root) for records declared in another file
	StructsFrom map[string]string
	// Consts: qualified Go constant -> file it is declared in (integer literals only)
	Consts map[string]string
	// Regions: translate only the first `for` statement of a function, as a function of the listed free variables
	// (name, Coq type kind); the result is the tuple of the variables the loop assigns
	Regions []region
	// Oracles: method of the context receiver -> Section variable of type `hash -> lookup TreeNode` (a database lookup that finds
	// a row, finds none, or fails); DropParams: parameters that only carry the database handle
	Oracles    map[string]string
	DropParams []string
	// StructFields: struct -> the fields the record keeps (a view: the other fields are not modelled; reading one fails loudly)
	StructFields map[string][]string
	// IntTypes: named integer types (enumerations), rendered as N
	IntTypes []string
	// Extra: functions of other files (methods of the named integer types), translated first into the same output; Alias = the
	// import name under which the main file refers to that package's constants
	Extra []extraSrc
	// CtxCalls: method (last selector of a call chain rooted at the context receiver) -> Section variable standing for the call
	CtxCalls map[string]ctxCall
	// IntLit: `x := 0` declares a Go int (Z), as the language says; off for the older targets whose literals are all unsigned
	IntLit bool
	// PtrRecv: methods whose pointer receiver may be nil (rendered as option); the other methods of the file are translated
	// for a non-nil receiver (Go would panic on the first field read otherwise)
	PtrRecv []string
	// TypeAlias: qualified Go type as the target files write it (pkg.Type) -> record name, for two structs of the same name in
	// different packages; StructGoName: record name -> the Go type's own name in the file named by StructsFrom
	TypeAlias    map[string]string
	StructGoName map[string]string
	// OutParams: pointer parameters to scalars that the function writes through (`*p = v`): the translated function takes the value
	// and returns, after its own results, the value the caller's variable holds when it returns
	OutParams []string
	// ErrSentinel: package-level error the file tests with errors.Is -> the gerr class standing for it IN THIS FILE
	ErrSentinel map[string]string
	// Hash2Funcs: helpers of the file that compute Keccak-256 of the concatenation of their two hash arguments through a hasher
	// object (calculateGER): rendered as hash2, like crypto.Keccak256Hash (that they do is checked byte for byte by the correspondence)
	Hash2Funcs []string
	// SynthStructs: records for types of other modules, declared here by the fields the file reads (integers only)
	SynthStructs map[string][]string
	// DropCalls: methods of the context receiver whose call statements are dropped (logging helpers)
	DropCalls []string
	// Imports: generated files this one builds on; ExternStructs: records declared there (parsed here for their fields, not emitted
	// again); ExternFuncs: functions translated there, with their result types and whether their receiver is an option
	Imports       []string
	ExternStructs []string
	ExternFuncs   map[string]externFn
}

type externFn struct {
	Rets    []ty
	RecvOpt bool
}

var curTypeAlias = map[string]string{}

type extraSrc struct {
	File  string
	Alias string
	Funcs []string
}
type ctxCall struct {
	Var    string
	Params []ty
	Rets   []ty
	// NoArgs: the arguments only select configuration of the receiver (e.g. the configured block tag): the oracle takes none
	NoArgs bool
}

var curIntTypes = map[string]bool{}

type region struct {
	Func   string
	Name   string  // name of the generated definition
	Params []param // free variables of the loop, in order
}
type param struct {
	Name string
	T    ty
}

var hashT = ty{k: kHash}

var targets = []target{
	{File: "tree/tree.go", Out: "GenTree.v", Module: "tree/tree.go (CalculateRoot) and tree/appendonlytree.go (hashing loop of AddLeaf)",
		Hash: true, Structs: []string{"TreeNode"}, StructsFrom: map[string]string{"TreeNode": "tree/types/types.go"},
		Consts: map[string]string{"types.DefaultHeight": "tree/types/types.go"},
		Ctx:    "Tree", Oracles: map[string]string{"getRHTNode": "rht"}, DropParams: []string{"tx"},
		Funcs: []string{"CalculateRoot", "Tree.GetLeaf", "Tree.getSiblings"}},
	{File: "tree/appendonlytree.go", Out: "GenAppendOnlyTree.v", Module: "tree/appendonlytree.go (hashing loop of AddLeaf)",
		Hash: true, Structs: []string{"TreeNode"}, StructsFrom: map[string]string{"TreeNode": "tree/types/types.go"},
		Consts: map[string]string{"types.DefaultHeight": "tree/types/types.go"},
		Regions: []region{{Func: "AppendOnlyTree.AddLeaf", Name: "AddLeaf_loop", Params: []param{
			{"leaf_Index", ty{k: kInt}}, {"currentChildHash", hashT},
			{"t_lastLeftCache", ty{k: kList, sub: []ty{hashT}}}, {"t_zeroHashes", ty{k: kList, sub: []ty{hashT}}},
			{"newNodes", ty{k: kList, sub: []ty{{k: kStruct, name: "TreeNode"}}}}}}}},
	{File: "tree/updatabletree.go", Out: "GenUpdatableTree.v", Module: "tree/updatabletree.go (hashing loop of UpsertLeaf)",
		Hash: true, Structs: []string{"TreeNode"}, StructsFrom: map[string]string{"TreeNode": "tree/types/types.go"},
		Consts: map[string]string{"types.DefaultHeight": "tree/types/types.go"},
		Regions: []region{{Func: "UpdatableTree.UpsertLeaf", Name: "UpsertLeaf_loop", Params: []param{
			{"leaf_Index", ty{k: kInt}}, {"currentChildHash", hashT}, {"siblings", ty{k: kList, sub: []ty{hashT}}},
			{"newNodes", ty{k: kList, sub: []ty{{k: kStruct, name: "TreeNode"}}}}}}}},
	{File: "aggsender/flows/flow_base.go", Out: "GenFlowBase.v",
		Module: "aggsender/flows/flow_base.go (getLastSentBlockAndRetryCount, getNextHeightAndPreviousLER) and the CertificateStatus predicates of agglayer/types/types.go",
		Hash:   true, IntLit: true, Ctx: "baseFlow",
		Structs: []string{"CertificateHeader"}, StructsFrom: map[string]string{"CertificateHeader": "aggsender/types/types.go"},
		StructFields: map[string][]string{"CertificateHeader": {"Height", "RetryCount", "PreviousLocalExitRoot", "NewLocalExitRoot", "FromBlock", "ToBlock", "Status"}},
		IntTypes:     []string{"CertificateStatus"},
		Extra: []extraSrc{{File: "agglayer/types/types.go", Alias: "agglayertypes",
			Funcs: []string{"CertificateStatus.IsOpen", "CertificateStatus.IsClosed", "CertificateStatus.IsSettled", "CertificateStatus.IsInError"}}},
		CtxCalls: map[string]ctxCall{
			"StartL2Block": {Var: "startL2Block", Rets: []ty{{k: kInt}}},
			"getStartLER":  {Var: "startLER", Rets: []ty{hashT, {k: kErr}}},
			"GetCertificateHeaderByHeight": {Var: "certByHeight", Params: []ty{{k: kInt}},
				Rets: []ty{{k: kOpt, sub: []ty{{k: kStruct, name: "CertificateHeader"}}}, {k: kErr}}},
		},
		Funcs: []string{"baseFlow.getLastSentBlockAndRetryCount", "baseFlow.getNextHeightAndPreviousLER"}},
	{File: "aggsender/types/certificate_build_params.go", Out: "GenBuildParams.v",
		Module:      "aggsender/types/certificate_build_params.go (Range, NumberOfBridges/Claims/Blocks, EstimatedSize, IsEmpty, IsARetry, MaxDepositCount)",
		IntLit:      true,
		Structs:     []string{"Bridge", "Claim", "CertificateHeader", "CertificateBuildParams"},
		StructsFrom: map[string]string{"Bridge": "bridgesync/processor.go", "Claim": "bridgesync/processor.go", "CertificateHeader": "aggsender/types/types.go"},
		StructFields: map[string][]string{
			"Bridge": {"BlockNum", "Metadata", "DepositCount"}, "Claim": {"BlockNum", "Metadata"}, "CertificateHeader": {"Height", "FromBlock"},
			"CertificateBuildParams": {"FromBlock", "ToBlock", "Bridges", "Claims", "RetryCount", "LastSentCertificate", "CertificateType"}},
		IntTypes: []string{"CertificateType"},
		Extra: []extraSrc{{File: "common/common.go", Alias: "aggkitcommon"}, {File: "agglayer/types/types.go", Alias: "agglayertypes"},
			{File: "aggsender/types/types.go", Alias: ""}},
		PtrRecv: []string{"CertificateBuildParams.NumberOfBridges", "CertificateBuildParams.NumberOfClaims", "CertificateBuildParams.NumberOfBlocks",
			"CertificateBuildParams.EstimatedSize", "CertificateBuildParams.IsEmpty", "CertificateBuildParams.IsARetry", "CertificateBuildParams.MaxDepositCount"},
		Funcs: []string{"CertificateBuildParams.Range", "CertificateBuildParams.NumberOfBridges", "CertificateBuildParams.NumberOfClaims",
			"CertificateBuildParams.NumberOfBlocks", "CertificateBuildParams.EstimatedSize", "CertificateBuildParams.IsEmpty",
			"CertificateBuildParams.IsARetry", "CertificateBuildParams.MaxDepositCount"}},
	{File: "aggsender/statuschecker/initial_state.go", Out: "GenInitialState.v",
		Module: "aggsender/statuschecker/initial_state.go (initialStatus.process, checkAgglayerConsistenceCerts, getLatestAggLayerCert) and the CertificateStatus predicates of agglayer/types/types.go",
		Hash:   true, IntLit: true, Ctx: "initialStatus", DropCalls: []string{"logData"},
		Structs:      []string{"AggHeader", "LocalHeader", "initialStatusResult"},
		StructsFrom:  map[string]string{"AggHeader": "agglayer/types/types.go", "LocalHeader": "aggsender/types/types.go"},
		StructGoName: map[string]string{"AggHeader": "CertificateHeader", "LocalHeader": "CertificateHeader"},
		TypeAlias:    map[string]string{"agglayertypes.CertificateHeader": "AggHeader", "types.CertificateHeader": "LocalHeader"},
		StructFields: map[string][]string{"AggHeader": {"Height", "CertificateID", "Status"}, "LocalHeader": {"Height", "CertificateID"},
			"initialStatusResult": {"action", "cert"}},
		IntTypes: []string{"CertificateStatus", "initialStatusAction"},
		Extra: []extraSrc{{File: "agglayer/types/types.go", Alias: "agglayertypes",
			Funcs: []string{"CertificateStatus.IsOpen", "CertificateStatus.IsClosed", "CertificateStatus.IsSettled", "CertificateStatus.IsInError"}}},
		Funcs: []string{"initialStatus.getLatestAggLayerCert", "initialStatus.checkAgglayerConsistenceCerts", "initialStatus.process"}},
	{File: "aggoracle/oracle.go", Out: "GenOracle.v",
		Module: "aggoracle/oracle.go (getLastFinalizedGER, processLatestGER: one tick of the GER oracle)",
		Hash:   true, Ctx: "AggOracle", DropParams: []string{"ctx"}, OutParams: []string{"blockNumToFetch"},
		ErrSentinel:  map[string]string{"ErrBlockNotProcessed": "ENotFound"},
		SynthStructs: map[string][]string{"Header": {"Number"}},
		Structs:      []string{"L1InfoTreeLeaf"},
		StructsFrom:  map[string]string{"L1InfoTreeLeaf": "l1infotreesync/processor.go"},
		StructFields: map[string][]string{"L1InfoTreeLeaf": {"GlobalExitRoot"}},
		CtxCalls: map[string]ctxCall{
			"l1Client.HeaderByNumber":        {Var: "headerByNumber", NoArgs: true, Rets: []ty{{k: kOpt, sub: []ty{{k: kStruct, name: "Header"}}}, {k: kErr}}},
			"l1Info.GetLatestInfoUntilBlock": {Var: "getLatestInfoUntilBlock", Params: []ty{{k: kInt}}, Rets: []ty{{k: kOpt, sub: []ty{{k: kStruct, name: "L1InfoTreeLeaf"}}}, {k: kErr}}},
			"chainSender.IsGERInjected":      {Var: "isGERInjected", Params: []ty{hashT}, Rets: []ty{{k: kBool}, {k: kErr}}},
			"chainSender.InjectGER":          {Var: "injectGER", Params: []ty{hashT}, Rets: []ty{{k: kErr}}},
		},
		Funcs: []string{"AggOracle.getLastFinalizedGER", "AggOracle.processLatestGER"}},
	{File: "aggsender/flows/flow_base.go", Out: "GenLimitCert.v",
		Module: "aggsender/flows/flow_base.go (limitCertSize, getNewLocalExitRoot, verifyRetryCertStartingBlock), on top of Gen/GenBuildParams.v",
		IntLit: true, Hash: true, Ctx: "baseFlow", Imports: []string{"Gen.GenBuildParams"}, DropParams: []string{"ctx"},
		CtxCalls:      map[string]ctxCall{"GetExitRootByIndex": {Var: "exitRootByIndex", Params: []ty{{k: kInt}}, Rets: []ty{hashT, {k: kErr}}}},
		Structs:       []string{"Bridge", "Claim", "CertificateHeader", "CertificateBuildParams", "BaseFlowConfig"},
		ExternStructs: []string{"Bridge", "Claim", "CertificateHeader", "CertificateBuildParams"},
		StructsFrom: map[string]string{"Bridge": "bridgesync/processor.go", "Claim": "bridgesync/processor.go", "CertificateHeader": "aggsender/types/types.go",
			"CertificateBuildParams": "aggsender/types/certificate_build_params.go"},
		StructFields: map[string][]string{
			"Bridge": {"BlockNum", "Metadata", "DepositCount"}, "Claim": {"BlockNum", "Metadata"}, "CertificateHeader": {"Height", "FromBlock"},
			"CertificateBuildParams": {"FromBlock", "ToBlock", "Bridges", "Claims", "RetryCount", "LastSentCertificate", "CertificateType"},
			"BaseFlowConfig":         {"MaxCertSize"}},
		IntTypes:  []string{"CertificateType"},
		TypeAlias: map[string]string{"types.CertificateBuildParams": "CertificateBuildParams"},
		ExternFuncs: map[string]externFn{
			"CertificateBuildParams.EstimatedSize":   {Rets: []ty{{k: kInt}}, RecvOpt: true},
			"CertificateBuildParams.NumberOfBlocks":  {Rets: []ty{{k: kZ}}, RecvOpt: true},
			"CertificateBuildParams.Range":           {Rets: []ty{{k: kOpt, sub: []ty{{k: kStruct, name: "CertificateBuildParams"}}}, {k: kErr}}},
			"CertificateBuildParams.NumberOfBridges": {Rets: []ty{{k: kZ}}, RecvOpt: true},
			"CertificateBuildParams.MaxDepositCount": {Rets: []ty{{k: kInt}}, RecvOpt: true},
			"CertificateBuildParams.IsARetry":        {Rets: []ty{{k: kBool}}, RecvOpt: true},
		},
		Funcs: []string{"baseFlow.limitCertSize", "baseFlow.getNewLocalExitRoot", "baseFlow.verifyRetryCertStartingBlock"}},
	{File: "aggsender/flows/flow_base.go", Out: "GenVerifyClaims.v",
		Module: "aggsender/flows/flow_base.go (verifyClaimGERs: every claim's global exit root is the hash of its mainnet and rollup exit roots)",
		Hash:   true, Ctx: "baseFlow", Hash2Funcs: []string{"calculateGER"},
		Structs: []string{"Claim"}, StructsFrom: map[string]string{"Claim": "bridgesync/processor.go"},
		StructFields: map[string][]string{"Claim": {"MainnetExitRoot", "RollupExitRoot", "GlobalExitRoot"}},
		TypeAlias:    map[string]string{"bridgesync.Claim": "Claim"},
		Funcs:        []string{"baseFlow.verifyClaimGERs"}},
	{File: "aggsender/query/l1info_tree_data_query.go", Out: "GenClaimsGuard.v",
		Module: "aggsender/query/l1info_tree_data_query.go (CheckIfClaimsArePartOfFinalizedL1InfoTree: the test the aggchain-prover flow makes before it builds against a root)",
		Hash:   true, Ctx: "L1InfoTreeDataQuerier",
		CtxCalls: map[string]ctxCall{"GetInfoByGlobalExitRoot": {Var: "infoByGER", Params: []ty{hashT},
			Rets: []ty{{k: kOpt, sub: []ty{{k: kStruct, name: "L1InfoTreeLeaf"}}}, {k: kErr}}}},
		Structs:      []string{"Claim", "Root", "L1InfoTreeLeaf"},
		StructsFrom:  map[string]string{"Claim": "bridgesync/processor.go", "Root": "tree/types/types.go", "L1InfoTreeLeaf": "l1infotreesync/processor.go"},
		StructFields: map[string][]string{"Claim": {"GlobalExitRoot"}, "Root": {"Index"}, "L1InfoTreeLeaf": {"L1InfoTreeIndex"}},
		TypeAlias:    map[string]string{"bridgesync.Claim": "Claim", "treetypes.Root": "Root"},
		Funcs:        []string{"L1InfoTreeDataQuerier.CheckIfClaimsArePartOfFinalizedL1InfoTree"}},
	{File: "aggsender/flows/flow_aggchain_prover.go", Out: "GenAdjustRange.v",
		Module: "aggsender/flows/flow_aggchain_prover.go (adjustBlockRange: the certificate is cut to the end block the prover proved), on top of Gen/GenBuildParams.v",
		IntLit: true, Hash: true, Imports: []string{"Gen.GenBuildParams"},
		Structs:       []string{"Bridge", "Claim", "CertificateHeader", "CertificateBuildParams"},
		ExternStructs: []string{"Bridge", "Claim", "CertificateHeader", "CertificateBuildParams"},
		StructsFrom: map[string]string{"Bridge": "bridgesync/processor.go", "Claim": "bridgesync/processor.go", "CertificateHeader": "aggsender/types/types.go",
			"CertificateBuildParams": "aggsender/types/certificate_build_params.go"},
		StructFields: map[string][]string{
			"Bridge": {"BlockNum", "Metadata", "DepositCount"}, "Claim": {"BlockNum", "Metadata"}, "CertificateHeader": {"Height", "FromBlock"},
			"CertificateBuildParams": {"FromBlock", "ToBlock", "Bridges", "Claims", "RetryCount", "LastSentCertificate", "CertificateType"}},
		IntTypes:  []string{"CertificateType"},
		TypeAlias: map[string]string{"types.CertificateBuildParams": "CertificateBuildParams"},
		ExternFuncs: map[string]externFn{
			"CertificateBuildParams.Range": {Rets: []ty{{k: kOpt, sub: []ty{{k: kStruct, name: "CertificateBuildParams"}}}, {k: kErr}}}},
		Funcs: []string{"adjustBlockRange"}},
	{File: "aggsender/flows/flow_aggchain_prover.go", Out: "GenLastProven.v",
		Module: "aggsender/flows/flow_aggchain_prover.go (getLastProvenBlock: the block after which the prover is asked to prove)",
		Ctx:    "AggchainProverFlow", CtxCalls: map[string]ctxCall{"StartL2Block": {Var: "startL2Block", Rets: []ty{{k: kInt}}}},
		Structs: []string{"CertificateHeader"}, StructsFrom: map[string]string{"CertificateHeader": "aggsender/types/types.go"},
		StructFields: map[string][]string{"CertificateHeader": {"ToBlock"}},
		TypeAlias:    map[string]string{"types.CertificateHeader": "CertificateHeader"},
		Funcs:        []string{"AggchainProverFlow.getLastProvenBlock"}},
	{File: "aggsender/flows/flow_base.go", Out: "GenGetParams.v",
		Module: "aggsender/flows/flow_base.go (GetCertificateBuildParamsInternal: which certificate the flows set out to build), on top of Gen/GenBuildParams.v",
		IntLit: true, Hash: true, Ctx: "baseFlow", Imports: []string{"Gen.GenBuildParams"}, DropParams: []string{"ctx"},
		CtxCalls: map[string]ctxCall{
			"GetLastProcessedBlock":         {Var: "lastProcessedBlock", Rets: []ty{{k: kInt}, {k: kErr}}},
			"GetLastSentCertificateHeader":  {Var: "lastSentCertificateHeader", Rets: []ty{{k: kOpt, sub: []ty{{k: kStruct, name: "CertificateHeader"}}}, {k: kErr}}},
			"getLastSentBlockAndRetryCount": {Var: "lastSentBlockAndRetryCount", Params: []ty{{k: kOpt, sub: []ty{{k: kStruct, name: "CertificateHeader"}}}}, Rets: []ty{{k: kInt}, {k: kZ}}},
			"GetBridgesAndClaims": {Var: "bridgesAndClaims", Params: []ty{{k: kInt}, {k: kInt}},
				Rets: []ty{{k: kList, sub: []ty{{k: kStruct, name: "Bridge"}}}, {k: kList, sub: []ty{{k: kStruct, name: "Claim"}}}, {k: kErr}}},
			"limitCertSize": {Var: "limitCertSize", Params: []ty{{k: kOpt, sub: []ty{{k: kStruct, name: "CertificateBuildParams"}}}},
				Rets: []ty{{k: kOpt, sub: []ty{{k: kStruct, name: "CertificateBuildParams"}}}, {k: kErr}}}},
		Structs:       []string{"Bridge", "Claim", "CertificateHeader", "CertificateBuildParams"},
		ExternStructs: []string{"Bridge", "Claim", "CertificateHeader", "CertificateBuildParams"},
		StructsFrom: map[string]string{"Bridge": "bridgesync/processor.go", "Claim": "bridgesync/processor.go", "CertificateHeader": "aggsender/types/types.go",
			"CertificateBuildParams": "aggsender/types/certificate_build_params.go"},
		StructFields: map[string][]string{
			"Bridge": {"BlockNum", "Metadata", "DepositCount"}, "Claim": {"BlockNum", "Metadata"}, "CertificateHeader": {"Height", "FromBlock"},
			"CertificateBuildParams": {"FromBlock", "ToBlock", "Bridges", "Claims", "RetryCount", "LastSentCertificate", "CertificateType"}},
		IntTypes:  []string{"CertificateType"},
		TypeAlias: map[string]string{"types.CertificateBuildParams": "CertificateBuildParams"},
		Funcs:     []string{"baseFlow.GetCertificateBuildParamsInternal"}},
	{File: "aggsender/flows/max_l2blocknumber_limiter.go", Out: "GenAdaptCert.v",
		Module: "aggsender/flows/max_l2blocknumber_limiter.go (IsEnabled, IsAllowedBlockNumber, isUpcomingNextRange, AdaptCertificate), on top of Gen/GenBuildParams.v",
		IntLit: true, Hash: true, Ctx: "MaxL2BlockNumberLimiter", Imports: []string{"Gen.GenBuildParams"},
		Structs:       []string{"Bridge", "Claim", "CertificateHeader", "CertificateBuildParams"},
		ExternStructs: []string{"Bridge", "Claim", "CertificateHeader", "CertificateBuildParams"},
		StructsFrom: map[string]string{"Bridge": "bridgesync/processor.go", "Claim": "bridgesync/processor.go", "CertificateHeader": "aggsender/types/types.go",
			"CertificateBuildParams": "aggsender/types/certificate_build_params.go"},
		StructFields: map[string][]string{
			"Bridge": {"BlockNum", "Metadata", "DepositCount"}, "Claim": {"BlockNum", "Metadata"}, "CertificateHeader": {"Height", "FromBlock"},
			"CertificateBuildParams": {"FromBlock", "ToBlock", "Bridges", "Claims", "RetryCount", "LastSentCertificate", "CertificateType"}},
		IntTypes:  []string{"CertificateType"},
		TypeAlias: map[string]string{"types.CertificateBuildParams": "CertificateBuildParams"},
		ExternFuncs: map[string]externFn{
			"CertificateBuildParams.Range":           {Rets: []ty{{k: kOpt, sub: []ty{{k: kStruct, name: "CertificateBuildParams"}}}, {k: kErr}}},
			"CertificateBuildParams.NumberOfBridges": {Rets: []ty{{k: kZ}}, RecvOpt: true},
			"CertificateBuildParams.NumberOfClaims":  {Rets: []ty{{k: kZ}}, RecvOpt: true},
			"CertificateBuildParams.IsEmpty":         {Rets: []ty{{k: kBool}}, RecvOpt: true},
			"CertificateBuildParams.IsARetry":        {Rets: []ty{{k: kBool}}, RecvOpt: true},
		},
		Funcs: []string{"MaxL2BlockNumberLimiter.IsEnabled", "MaxL2BlockNumberLimiter.IsAllowedBlockNumber", "MaxL2BlockNumberLimiter.isUpcomingNextRange",
			"MaxL2BlockNumberLimiter.AdaptCertificate"}},
	{File: "bridgeservice/bridge.go", Out: "GenL1InfoIndex.v",
		Module: "bridgeservice/bridge.go (getFirstL1InfoTreeIndexForL1Bridge, getFirstL1InfoTreeIndexForL2Bridge: the two binary searches of the l1-info-tree-index endpoint)",
		Hash:   true, IntLit: true, Ctx: "BridgeService", DropParams: []string{"ctx"},
		Structs:     []string{"L1InfoTreeLeaf", "VerifyBatches", "Root"},
		StructsFrom: map[string]string{"L1InfoTreeLeaf": "l1infotreesync/processor.go", "VerifyBatches": "l1infotreesync/processor.go", "Root": "tree/types/types.go"},
		StructFields: map[string][]string{"L1InfoTreeLeaf": {"BlockNumber", "L1InfoTreeIndex", "MainnetExitRoot"},
			"VerifyBatches": {"BlockNumber", "ExitRoot", "RollupExitRoot"}, "Root": {"Index"}},
		CtxCalls: map[string]ctxCall{
			"GetLastInfo":  {Var: "getLastInfo", Rets: []ty{{k: kOpt, sub: []ty{{k: kStruct, name: "L1InfoTreeLeaf"}}}, {k: kErr}}},
			"GetFirstInfo": {Var: "getFirstInfo", Rets: []ty{{k: kOpt, sub: []ty{{k: kStruct, name: "L1InfoTreeLeaf"}}}, {k: kErr}}},
			"GetFirstInfoAfterBlock": {Var: "getFirstInfoAfterBlock", Params: []ty{{k: kInt}},
				Rets: []ty{{k: kOpt, sub: []ty{{k: kStruct, name: "L1InfoTreeLeaf"}}}, {k: kErr}}},
			"bridgeL1.GetRootByLER": {Var: "rootByLER_L1", Params: []ty{hashT}, Rets: []ty{{k: kOpt, sub: []ty{{k: kStruct, name: "Root"}}}, {k: kErr}}},
			"bridgeL2.GetRootByLER": {Var: "rootByLER_L2", Params: []ty{hashT}, Rets: []ty{{k: kOpt, sub: []ty{{k: kStruct, name: "Root"}}}, {k: kErr}}},
			"GetLastVerifiedBatches": {Var: "getLastVerifiedBatches", Params: []ty{{k: kInt}},
				Rets: []ty{{k: kOpt, sub: []ty{{k: kStruct, name: "VerifyBatches"}}}, {k: kErr}}},
			"GetFirstVerifiedBatches": {Var: "getFirstVerifiedBatches", Params: []ty{{k: kInt}},
				Rets: []ty{{k: kOpt, sub: []ty{{k: kStruct, name: "VerifyBatches"}}}, {k: kErr}}},
			"GetFirstVerifiedBatchesAfterBlock": {Var: "getFirstVerifiedBatchesAfterBlock", Params: []ty{{k: kInt}, {k: kInt}},
				Rets: []ty{{k: kOpt, sub: []ty{{k: kStruct, name: "VerifyBatches"}}}, {k: kErr}}},
			"GetFirstL1InfoWithRollupExitRoot": {Var: "getFirstL1InfoWithRollupExitRoot", Params: []ty{hashT},
				Rets: []ty{{k: kOpt, sub: []ty{{k: kStruct, name: "L1InfoTreeLeaf"}}}, {k: kErr}}},
		},
		Funcs: []string{"BridgeService.getFirstL1InfoTreeIndexForL1Bridge", "BridgeService.getFirstL1InfoTreeIndexForL2Bridge"}},
	{File: "aggsender/types/block_range.go", Out: "GenBlockRange.v", Module: "aggsender/types/block_range.go",
		Structs: []string{"BlockRange"},
		Funcs:   []string{"getBlockMinusOne", "BlockRange.CountBlocks", "BlockRange.IsEmpty", "BlockRange.Gap"}},
	{File: "aggsender/epoch_notifier_per_block.go", Out: "GenEpoch.v", Module: "aggsender/epoch_notifier_per_block.go",
		Structs: []string{"ExtraInfoEventEpoch", "internalStatus"}, Ctx: "EpochNotifierPerBlock",
		Funcs: []string{"EpochNotifierPerBlock.epochNumber", "EpochNotifierPerBlock.startingBlockEpoch",
			"EpochNotifierPerBlock.endBlockEpoch", "EpochNotifierPerBlock.percentEpoch", "EpochNotifierPerBlock.isNotificationRequired",
			"EpochNotifierPerBlock.infoEpoch", "EpochNotifierPerBlock.step"}},
}

type tr struct {
	tg      target
	fset    *token.FileSet
	file    *ast.File
	structs map[string]*structDef
	consts  map[string]struct {
		code string
		t    ty
	}
	funcs    map[string]*ast.FuncDecl // key: "Recv.Name" or "Name"
	rets     map[string]ty            // translated function name -> result type
	ctxVars  map[string]ty            // Section variables (context selectors), name -> type
	ctxOrder []string
	errs     []string
	funcFile map[string]*ast.File // translated function key -> the file it is declared in (Extra sources)
	externs  map[string]bool
	fresh    int
	panics   []string // declarations of the panic variables used, in order
	hashEq   bool     // the output compares hashes: Section variable hash_eqb
	needFuel bool     // the function being translated contains `for { }`: it takes a fuel parameter
	cvals    map[string]constant.Value
	recvOpt  map[string]bool // translated function name -> its receiver is an option
}

func (t *tr) fail(n ast.Node, format string, a ...any) {
	pos := ""
	if n != nil {
		pos = t.fset.Position(n.Pos()).String() + ": "
	}
	t.errs = append(t.errs, pos+fmt.Sprintf(format, a...))
}

func goType(e ast.Expr, structs map[string]*structDef) ty {
	switch v := e.(type) {
	case *ast.Ident:
		switch v.Name {
		case "uint64", "uint", "uint32", "uint16", "uint8", "byte":
			return ty{k: kInt}
		case "int", "int64":
			return ty{k: kZ}
		case "float64":
			return ty{k: kFloat}
		case "bool":
			return ty{k: kBool}
		case "error":
			return ty{k: kErr}
		}
		if curIntTypes[v.Name] {
			return ty{k: kInt, name: v.Name}
		}
		if _, ok := structs[v.Name]; ok {
			return ty{k: kStruct, name: v.Name}
		}
	case *ast.StarExpr:
		inner := goType(v.X, structs)
		return ty{k: kOpt, sub: []ty{inner}}
	case *ast.ArrayType:
		return ty{k: kList, sub: []ty{goType(v.Elt, structs)}}
	case *ast.SelectorExpr: // pkg.Type
		if x, ok := v.X.(*ast.Ident); ok {
			if rn, ok := curTypeAlias[x.Name+"."+v.Sel.Name]; ok {
				if _, ok := structs[rn]; ok {
					return ty{k: kStruct, name: rn}
				}
			}
		}
		if x, ok := v.X.(*ast.Ident); ok && x.Name == "common" && v.Sel.Name == "Hash" {
			return ty{k: kHash}
		}
		if x, ok := v.X.(*ast.Ident); ok && x.Name == "types" && v.Sel.Name == "Proof" { // [DefaultHeight]common.Hash
			return ty{k: kList, name: "arr32", sub: []ty{{k: kHash}}}
		}
		if curIntTypes[v.Sel.Name] {
			return ty{k: kInt, name: v.Sel.Name}
		}
		if _, ok := structs[v.Sel.Name]; ok {
			return ty{k: kStruct, name: v.Sel.Name}
		}
		return ty{k: kUnknown, name: v.Sel.Name}
	}
	return ty{k: kUnknown}
}

// ---------------------------------------------------------------------------------------------
// expressions
// ---------------------------------------------------------------------------------------------

type env struct {
	vars map[string]ty
	recv string // receiver identifier
	rctx bool   // receiver is the context
	flat map[string]bool
	// function results (for `nil` as an error value and for bare returns of named results)
	rets  []ty
	named []string
	// innermost loop: the tuple of its carried variables; whether its state carries an early-return value
	loopTup string
	inLoop  bool
	loopRet bool
	// pointers known to be non-nil here: printed expression -> the name bound to the value pointed to
	deref map[string]string
	// the Section variable that stands for "a nil pointer is dereferenced here" in the function being translated
	panicVar string
	// inside `for { }`: the call that starts the next iteration with the current values of the loop variables
	contCall string
	// inside `for cond { }`: the translated rest of the function, for `break`
	breakCode string
	// identifiers that are Go pointers but stand here for the record pointed to (bound below a nil test)
	wasPtr map[string]bool
	// fuel loop: its carried variables in order, and which of them are pointers (option) in the loop's signature
	loopNames []string
	loopPtr   map[string]bool
	// out parameters (see target.OutParams), appended to every return
	outs []string
}

func (e *env) clone() *env {
	n := &env{vars: map[string]ty{}, recv: e.recv, rctx: e.rctx, flat: e.flat, rets: e.rets, named: e.named,
		loopTup: e.loopTup, inLoop: e.inLoop, loopRet: e.loopRet, panicVar: e.panicVar, contCall: e.contCall, breakCode: e.breakCode, loopNames: e.loopNames, loopPtr: e.loopPtr, outs: e.outs}
	for k, v := range e.vars {
		n.vars[k] = v
	}
	n.deref = map[string]string{}
	for k, v := range e.deref {
		n.deref[k] = v
	}
	n.wasPtr = map[string]bool{}
	for k, v := range e.wasPtr {
		n.wasPtr[k] = v
	}
	return n
}

func (t *tr) droppedParam(name string) bool {
	for _, d := range t.tg.DropParams {
		if d == name {
			return true
		}
	}
	return false
}

// derefOuts rewrites `*p` into `p` for the out parameters p of a function (reads and writes through the pointer become reads and
// writes of a variable whose final value the translated function returns)
func derefOuts(body ast.Node, outs map[string]bool) {
	fix := func(e ast.Expr) ast.Expr {
		if se, ok := e.(*ast.StarExpr); ok {
			if id, ok := se.X.(*ast.Ident); ok && outs[id.Name] {
				return id
			}
		}
		return e
	}
	fixAll := func(es []ast.Expr) {
		for i := range es {
			es[i] = fix(es[i])
		}
	}
	ast.Inspect(body, func(n ast.Node) bool {
		switch v := n.(type) {
		case *ast.AssignStmt:
			fixAll(v.Lhs)
			fixAll(v.Rhs)
		case *ast.CallExpr:
			fixAll(v.Args)
		case *ast.ReturnStmt:
			fixAll(v.Results)
		case *ast.BinaryExpr:
			v.X, v.Y = fix(v.X), fix(v.Y)
		case *ast.UnaryExpr:
			v.X = fix(v.X)
		case *ast.ParenExpr:
			v.X = fix(v.X)
		case *ast.IfStmt:
			v.Cond = fix(v.Cond)
		case *ast.ExprStmt:
			v.X = fix(v.X)
		}
		return true
	})
}

func selChain(e ast.Expr) ([]string, bool) {
	switch v := e.(type) {
	case *ast.Ident:
		return []string{v.Name}, true
	case *ast.SelectorExpr:
		p, ok := selChain(v.X)
		if !ok {
			return nil, false
		}
		return append(p, v.Sel.Name), true
	}
	return nil, false
}

func mentionsLogger(e ast.Expr) bool {
	found := false
	ast.Inspect(e, func(n ast.Node) bool {
		if id, ok := n.(*ast.Ident); ok && (id.Name == "logger" || id.Name == "log") {
			found = true
		}
		return true
	})
	return found
}

func (t *tr) funcName(recvType, name string) string {
	if recvType == "" || recvType == t.tg.Ctx {
		return name
	}
	return recvType + "_" + name
}

func (t *tr) expr(e ast.Expr, en *env) (string, ty) {
	switch v := e.(type) {
	case *ast.ParenExpr:
		return t.expr(v.X, en)
	case *ast.BasicLit:
		switch v.Kind {
		case token.INT:
			n, err := strconv.ParseUint(v.Value, 0, 64)
			if err != nil {
				t.fail(v, "integer literal %s", v.Value)
			}
			return fmt.Sprintf("%d", n), ty{k: kInt}
		case token.FLOAT:
			f, err := strconv.ParseFloat(v.Value, 64)
			if err != nil || f != float64(uint64(f)) {
				t.fail(v, "float literal %s is not an integer value", v.Value)
			}
			return fmt.Sprintf("(f64_of_N %d)", uint64(f)), ty{k: kFloat}
		}
		t.fail(v, "literal %s", v.Value)
		return "?", ty{k: kUnknown}
	case *ast.Ident:
		switch v.Name {
		case "true", "false":
			return v.Name, ty{k: kBool}
		case "nil":
			return "None", ty{k: kOpt, sub: []ty{{k: kUnknown}}}
		}
		if c, ok := t.consts[v.Name]; ok {
			return c.code, c.t
		}
		if vt, ok := en.vars[v.Name]; ok {
			return v.Name, vt
		}
		t.fail(v, "unknown identifier %s", v.Name)
		return v.Name, ty{k: kUnknown}
	case *ast.SelectorExpr:
		if name, isDeref := en.deref[types.ExprString(v.X)]; isDeref { // v.X is a pointer known to be non-nil here: a field of the bound record
			if _, pt := t.expr(v.X, en); pt.k == kOpt && pt.sub[0].k == kStruct {
				if sd := t.structs[pt.sub[0].name]; sd != nil {
					for _, f := range sd.fields {
						if f.name == v.Sel.Name {
							return fmt.Sprintf("(%s_%s %s)", sd.name, f.name, name), f.t
						}
					}
				}
			}
			t.fail(v, "selector .%s through a pointer", v.Sel.Name)
			return "?", ty{k: kUnknown}
		}
		chain, ok := selChain(v)
		if ok && en.rctx && chain[0] == en.recv && !hasDerefPrefix(v, en) { // context selector -> Section variable
			name := strings.Join(chain, "_")
			vt, known := t.ctxVars[name]
			if !known {
				vt = t.ctxFieldType(chain[1:])
				t.ctxVars[name] = vt
				t.ctxOrder = append(t.ctxOrder, name)
			}
			return name, vt
		}
		if ok {
			name := strings.Join(chain, "_")
			if vt, isVar := en.vars[name]; isVar && len(chain) > 1 { // flattened variable of a region (leaf.Index -> leaf_Index)
				if _, shadow := en.vars[chain[0]]; !shadow {
					return name, vt
				}
			}
			if c, isConst := t.consts[strings.Join(chain, ".")]; isConst {
				return c.code, c.t
			}
			if t.tg.Hash && len(chain) == 2 && chain[1] == "ZeroHash" { // aggkitcommon.ZeroHash = common.Hash{}
				return "hash0", ty{k: kHash}
			}
		}
		if ok && len(chain) == 2 && en.flat[chain[0]] { // field of an external struct parameter
			name := chain[0] + "_" + chain[1]
			if vt, ok := en.vars[name]; ok {
				return name, vt
			}
			t.fail(v, "field %s of external struct parameter %s is not declared in the target's flattening", chain[1], chain[0])
			return name, ty{k: kUnknown}
		}
		xc, xt := t.expr(v.X, en)
		if xt.k == kStruct {
			sd := t.structs[xt.name]
			for _, f := range sd.fields {
				if f.name == v.Sel.Name {
					return fmt.Sprintf("(%s_%s %s)", sd.name, f.name, xc), f.t
				}
			}
		}
		t.fail(v, "selector .%s", v.Sel.Name)
		return "?", ty{k: kUnknown}
	case *ast.IndexExpr:
		a, at := t.expr(v.X, en)
		i, _ := t.expr(v.Index, en)
		if at.k != kList {
			t.fail(v, "index into a non-list")
			return "?", ty{k: kUnknown}
		}
		if _, it := t.expr(v.Index, en); it.k == kZ {
			i = "(Z.to_N " + i + ")"
		}
		return "(list_get " + t.zeroOf(at.sub[0]) + " " + a + " " + i + ")", at.sub[0]
	case *ast.UnaryExpr:
		switch v.Op {
		case token.NOT:
			c, _ := t.expr(v.X, en)
			return "(negb " + c + ")", ty{k: kBool}
		case token.AND:
			c, ct := t.expr(v.X, en)
			return "(Some " + c + ")", ty{k: kOpt, sub: []ty{ct}}
		}
		t.fail(v, "unary operator %s", v.Op)
		return "?", ty{k: kUnknown}
	case *ast.StarExpr: // *p, only where p is known to be non-nil (an enclosing `p != nil` test bound the value)
		if name, ok := en.deref[types.ExprString(v.X)]; ok {
			_, pt := t.expr(v.X, en)
			if pt.k == kOpt {
				return name, pt.sub[0]
			}
		}
		t.fail(v, "dereference of %s outside a nil test", types.ExprString(v.X))
		return "?", ty{k: kUnknown}
	case *ast.CompositeLit:
		return t.composite(v, en)
	case *ast.CallExpr:
		return t.call(v, en)
	case *ast.BinaryExpr:
		return t.binary(v, en)
	}
	t.fail(e, "expression %T", e)
	return "?", ty{k: kUnknown}
}

// type of a field path below the context receiver, from the struct declarations of the file
func (t *tr) ctxFieldType(path []string) ty {
	cur := t.tg.Ctx
	var last ty = ty{k: kUnknown}
	for _, f := range path {
		ts := t.typeSpec(cur)
		if ts == nil {
			return ty{k: kUnknown}
		}
		st, ok := ts.Type.(*ast.StructType)
		if !ok {
			return ty{k: kUnknown}
		}
		found := false
		for _, fl := range st.Fields.List {
			for _, n := range fl.Names {
				if n.Name == f {
					found = true
					last = goType(fl.Type, t.structs)
					if id, ok := fl.Type.(*ast.Ident); ok {
						cur = id.Name
					}
				}
			}
		}
		if !found {
			return ty{k: kUnknown}
		}
	}
	return last
}

func (t *tr) typeSpec(name string) *ast.TypeSpec {
	for _, d := range t.file.Decls {
		gd, ok := d.(*ast.GenDecl)
		if !ok {
			continue
		}
		for _, s := range gd.Specs {
			if ts, ok := s.(*ast.TypeSpec); ok && ts.Name.Name == name {
				return ts
			}
		}
	}
	return nil
}

func zero(t ty) string {
	switch t.k {
	case kInt:
		return "0"
	case kZ:
		return "0%Z"
	case kBool:
		return "false"
	case kOpt:
		return "None"
	case kHash:
		return "hash0"
	case kErr:
		return "EOK"
	case kList:
		if t.name == "arr32" {
			return "(repeat hash0 32)"
		}
		return "[]"
	case kStruct:
		if t.name == "TreeNode" {
			return "(mkTreeNode hash0 hash0 hash0)"
		}
	}
	return "?"
}

func (t *tr) composite(v *ast.CompositeLit, en *env) (string, ty) {
	if chain, ok := selChain(v.Type); ok && strings.Join(chain, ".") == "common.Hash" && len(v.Elts) == 0 {
		return "hash0", ty{k: kHash}
	}
	name := ""
	switch x := v.Type.(type) {
	case *ast.Ident:
		name = x.Name
	case *ast.SelectorExpr:
		name = x.Sel.Name
	}
	if sd, ok := t.structs[name]; ok {
		vals := map[string]string{}
		for _, el := range v.Elts {
			kv, ok := el.(*ast.KeyValueExpr)
			if !ok {
				t.fail(el, "positional composite literal")
				continue
			}
			inView := false
			for _, f := range sd.fields {
				if f.name == kv.Key.(*ast.Ident).Name {
					inView = true
				}
			}
			if !inView { // a field outside the record's view: not modelled
				continue
			}
			c, ct := t.expr(kv.Value, en)
			for _, f := range sd.fields {
				if f.name == kv.Key.(*ast.Ident).Name && f.t.k == kOpt && ct.k == kStruct {
					c = "(Some " + c + ")" // a pointer field set to a record known to be non-nil
				}
			}
			vals[kv.Key.(*ast.Ident).Name] = c
		}
		var args []string
		for _, f := range sd.fields {
			if c, ok := vals[f.name]; ok {
				args = append(args, c)
			} else {
				args = append(args, t.zeroOf(f.t))
			}
		}
		return "(mk" + sd.name + " " + strings.Join(args, " ") + ")", ty{k: kStruct, name: sd.name}
	}
	// external struct: the tuple of the given fields, in literal order
	var parts []string
	var sub []ty
	for _, el := range v.Elts {
		kv, ok := el.(*ast.KeyValueExpr)
		if !ok {
			t.fail(el, "positional composite literal")
			continue
		}
		c, ct := t.expr(kv.Value, en)
		parts = append(parts, c)
		sub = append(sub, ct)
	}
	return "(" + strings.Join(parts, ", ") + ")", ty{k: kTuple, sub: sub}
}

func (t *tr) call(v *ast.CallExpr, en *env) (string, ty) {
	// conversions
	if id, ok := v.Fun.(*ast.Ident); ok && len(v.Args) == 1 {
		switch id.Name {
		case "uint8":
			c, _ := t.expr(v.Args[0], en)
			return "(" + c + " mod 256)", ty{k: kInt}
		case "uint64", "uint":
			c, ct := t.expr(v.Args[0], en)
			if ct.k == kFloat { // truncation toward zero (the value is non-negative and in range where the targets use it)
				return "(f64_to_u64 " + c + ")", ty{k: kInt}
			}
			if ct.k != kInt {
				t.fail(v, "conversion %s of a non-integer", id.Name)
			}
			return c, ty{k: kInt}
		case "uint32":
			c, _ := t.expr(v.Args[0], en)
			return "(u32_of " + c + ")", ty{k: kInt}
		case "int":
			c, ct := t.expr(v.Args[0], en)
			if ct.k == kZ {
				return c, ct
			}
			return "(go_int " + c + ")", ty{k: kZ}
		case "float64":
			c, ct := t.expr(v.Args[0], en)
			if ct.k == kZ {
				return "(f64_of_Z " + c + ")", ty{k: kFloat}
			}
			if ct.k != kInt {
				t.fail(v, "float64() of a non-integer")
			}
			return "(f64_of_N " + c + ")", ty{k: kFloat}
		case "len":
			c, ct := t.expr(v.Args[0], en)
			if ct.k != kList {
				t.fail(v, "len of a non-slice")
			}
			return "(Z.of_nat (length " + c + "))", ty{k: kZ}
		}
	}
	if chain, ok := selChain(v.Fun); ok {
		switch strings.Join(chain, ".") {
		case "errors.Is": // errors.Is(err, db.ErrNotFound)
			if len(v.Args) == 2 {
				if tc, ok := selChain(v.Args[1]); ok {
					if cls, ok := t.tg.ErrSentinel[tc[len(tc)-1]]; ok {
						a, _ := t.expr(v.Args[0], en)
						return "(err_eqb " + a + " " + cls + ")", ty{k: kBool}
					}
					if tc[len(tc)-1] == "ErrNotFound" && len(t.tg.ErrSentinel) == 0 {
						a, _ := t.expr(v.Args[0], en)
						return "(err_eqb " + a + " ENotFound)", ty{k: kBool}
					}
				}
			}
			t.fail(v, "errors.Is with anything but db.ErrNotFound")
			return "?", ty{k: kUnknown}
		case "fmt.Errorf": // always a non-nil error; %w keeps the class of the wrapped error (a wrapped nil is still an error)
			wraps := false
			ast.Inspect(v.Args[0], func(n ast.Node) bool {
				if bl, ok := n.(*ast.BasicLit); ok && bl.Kind == token.STRING && strings.Contains(bl.Value, "%w") {
					wraps = true
				}
				return true
			})
			if wraps && len(v.Args) >= 2 {
				if id, ok := v.Args[len(v.Args)-1].(*ast.Ident); ok && en.vars[id.Name].k == kErr {
					return "(err_wrap " + id.Name + ")", ty{k: kErr}
				}
				if id, ok := v.Args[len(v.Args)-1].(*ast.Ident); ok {
					if _, local := en.vars[id.Name]; !local { // a package-level sentinel error
						return "EFail", ty{k: kErr}
					}
				}
				t.fail(v, "fmt.Errorf with %%w whose last argument is not an error variable")
				return "?", ty{k: kUnknown}
			}
			return "EFail", ty{k: kErr}
		case "slices.Contains": // slices.Contains(<package-level slice of constants>, x)
			if len(v.Args) == 2 {
				if id, ok := v.Args[0].(*ast.Ident); ok {
					if elts := t.packageSlice(id.Name); elts != nil {
						x, xt := t.expr(v.Args[1], en)
						var es []string
						for _, e := range elts {
							c, _ := t.expr(e, en)
							es = append(es, c)
						}
						if xt.k == kInt {
							return "(existsb (N.eqb " + x + ") [" + strings.Join(es, "; ") + "])", ty{k: kBool}
						}
					}
				}
			}
			t.fail(v, "slices.Contains of anything but a package-level slice literal of integers")
			return "?", ty{k: kUnknown}
		}
	}
	// intrinsics over the abstract hash type
	if sel, ok := v.Fun.(*ast.SelectorExpr); ok && sel.Sel.Name == "Bytes" && len(v.Args) == 0 { // h.Bytes(): the same 32 bytes
		if c, ct := t.expr(sel.X, en); ct.k == kHash {
			return c, ct
		}
	}
	if chain, ok := selChain(v.Fun); ok {
		switch strings.Join(chain, ".") {
		case "crypto.Keccak256Hash": // Keccak256Hash(a.Bytes(), b.Bytes()) = Keccak-256 of the concatenation
			if len(v.Args) == 2 {
				a, at := t.expr(v.Args[0], en)
				b, bt := t.expr(v.Args[1], en)
				if at.k == kHash && bt.k == kHash {
					return "(hash2 " + a + " " + b + ")", ty{k: kHash}
				}
			}
			t.fail(v, "crypto.Keccak256Hash of anything but two hashes")
			return "?", ty{k: kUnknown}
		case "newTreeNode": // tree.go: Keccak-256 of left ++ right, kept with its children
			if _, ok := t.structs["TreeNode"]; ok && len(v.Args) == 2 {
				l, _ := t.expr(v.Args[0], en)
				r, _ := t.expr(v.Args[1], en)
				return "(mkTreeNode (hash2 " + l + " " + r + ") " + l + " " + r + ")", ty{k: kStruct, name: "TreeNode"}
			}
		case "make":
			if len(v.Args) >= 1 {
				if at := goType(v.Args[0], t.structs); at.k == kList && at.sub[0].k != kUnknown {
					return "[]", at
				}
			}
			t.fail(v, "make of anything but a slice of a translated type")
			return "?", ty{k: kUnknown}
		case "append":
			if len(v.Args) == 2 {
				a, at := t.expr(v.Args[0], en)
				b, _ := t.expr(v.Args[1], en)
				return "(" + a + " ++ [" + b + "])", at
			}
		}
		if len(chain) >= 2 && chain[len(chain)-1] == "Bytes" && len(v.Args) == 0 { // h.Bytes(): the same 32 bytes
			if sel, ok := v.Fun.(*ast.SelectorExpr); ok {
				c, ct := t.expr(sel.X, en)
				if ct.k == kHash {
					return c, ct
				}
			}
		}
	}
	if chain, ok := selChain(v.Fun); ok && en.rctx && chain[0] == en.recv && len(chain) >= 2 {
		cc, ok := t.tg.CtxCalls[chain[len(chain)-1]]
		if c2, ok2 := t.tg.CtxCalls[strings.Join(chain[len(chain)-2:], ".")]; ok2 { // field.Method distinguishes two fields of one interface type
			cc, ok = c2, true
		}
		if ok { // a call through the context: an oracle
			var args []string
			for _, a := range v.Args {
				if cc.NoArgs {
					break
				}
				if aid, ok := a.(*ast.Ident); ok {
					isDropped := false
					for _, d := range t.tg.DropParams {
						if d == aid.Name {
							isDropped = true
						}
					}
					if isDropped {
						continue
					}
				}
				c, ct := t.expr(a, en)
				if k := len(args); k < len(cc.Params) && cc.Params[k].k == kOpt && ct.k == kStruct { // a non-nil pointer (p := &T{..}) handed to the call
					c = "(Some " + c + ")"
				}
				args = append(args, c)
			}
			if _, known := t.ctxVars[cc.Var]; !known {
				var ps []string
				for _, p := range cc.Params {
					ps = append(ps, p.coq())
				}
				rt := ty{k: kTuple, sub: cc.Rets}
				if len(cc.Rets) == 1 {
					rt = cc.Rets[0]
				}
				ps = append(ps, rt.coq())
				t.ctxVars[cc.Var] = ty{k: kRaw, name: strings.Join(ps, " -> ")}
				t.ctxOrder = append(t.ctxOrder, cc.Var)
			}
			rt := ty{k: kTuple, sub: cc.Rets}
			if len(cc.Rets) == 1 {
				rt = cc.Rets[0]
			}
			if len(args) == 0 {
				return cc.Var, rt
			}
			return "(" + cc.Var + " " + strings.Join(args, " ") + ")", rt
		}
	}
	var fname string
	var args []string
	switch f := v.Fun.(type) {
	case *ast.Ident:
		for _, hf := range t.tg.Hash2Funcs { // a helper of the file that is Keccak-256 of its two hash arguments, concatenated
			if hf == f.Name && len(v.Args) == 2 {
				a, at := t.expr(v.Args[0], en)
				b, bt := t.expr(v.Args[1], en)
				if at.k == kHash && bt.k == kHash {
					return "(hash2 " + a + " " + b + ")", ty{k: kHash}
				}
			}
		}
		if _, ok := t.funcs[f.Name]; !ok {
			t.fail(v, "call of %s (not a translated function)", f.Name)
		}
		fname = f.Name
	case *ast.SelectorExpr:
		if id, ok := f.X.(*ast.Ident); ok && en.rctx && id.Name == en.recv {
			if _, ok := t.funcs[t.tg.Ctx+"."+f.Sel.Name]; !ok {
				t.fail(v, "call of method %s (not a translated function)", f.Sel.Name)
			}
			fname = f.Sel.Name
		} else {
			xc, xt := t.expr(f.X, en)
			if xt.k == kInt && xt.name == "" && f.Sel.Name == "Uint64" && len(v.Args) == 0 { // (*big.Int).Uint64() of a field modelled as N
				return xc, xt
			}
			isOpt := false
			if xt.k == kOpt && len(xt.sub) == 1 && xt.sub[0].k == kStruct {
				xt, isOpt = xt.sub[0], true
			}
			if !(xt.k == kStruct || (xt.k == kInt && xt.name != "")) {
				t.fail(v, "method call on a non-record")
				return "?", ty{k: kUnknown}
			}
			if _, ok := t.funcs[xt.name+"."+f.Sel.Name]; !ok && !t.externs[xt.name+"."+f.Sel.Name] {
				t.fail(v, "call of method %s.%s (not a translated function)", xt.name, f.Sel.Name)
			}
			fname = xt.name + "_" + f.Sel.Name
			switch {
			case t.recvOpt[fname] && !isOpt:
				xc = "(Some " + xc + ")"
			case !t.recvOpt[fname] && isOpt:
				t.fail(v, "method %s needs a non-nil receiver, %s may be nil here", fname, xc)
			}
			args = append(args, xc)
		}
	default:
		t.fail(v, "call %T", v.Fun)
		return "?", ty{k: kUnknown}
	}
	for _, a := range v.Args {
		if aid, ok := a.(*ast.Ident); ok && t.droppedParam(aid.Name) {
			continue
		}
		c, _ := t.expr(a, en)
		args = append(args, c)
	}
	rt, ok := t.rets[fname]
	if !ok {
		t.fail(v, "%s is used before it is translated (order the target's function list by dependency)", fname)
	}
	return "(" + fname + " " + strings.Join(args, " ") + ")", rt
}

// isConst: a literal or a name / qualified name of a loaded constant
func (t *tr) isConst(e ast.Expr) bool {
	switch x := e.(type) {
	case *ast.BasicLit:
		return true
	case *ast.Ident:
		_, ok := t.consts[x.Name]
		return ok
	case *ast.SelectorExpr:
		if chain, ok := selChain(x); ok {
			_, isC := t.consts[strings.Join(chain, ".")]
			return isC
		}
	}
	return false
}

// zeroOf: the zero value of a type, records field by field
func (t *tr) zeroOf(x ty) string {
	if x.k == kStruct {
		if sd, ok := t.structs[x.name]; ok {
			var args []string
			for _, f := range sd.fields {
				args = append(args, t.zeroOf(f.t))
			}
			return "(mk" + sd.name + " " + strings.Join(args, " ") + ")"
		}
	}
	if x.k == kFloat {
		return "(f64_of_N 0)"
	}
	return zero(x)
}

// hasDerefPrefix: some proper prefix of the selector chain is a pointer bound by an enclosing nil test
func hasDerefPrefix(v *ast.SelectorExpr, en *env) bool {
	var x ast.Expr = v.X
	for {
		if _, ok := en.deref[types.ExprString(x)]; ok {
			return true
		}
		sel, ok := x.(*ast.SelectorExpr)
		if !ok {
			return false
		}
		x = sel.X
	}
}

// ptrBase: if e is `X.f` (or `X.f.g..`, `X.m(..)`'s receiver chain) where X is a pointer to a record that may be nil here
// (an identifier of option type, or a context selector of option type, not bound by an enclosing nil test), returns X
func (t *tr) ptrBase(e ast.Expr, en *env) ast.Expr {
	sel, ok := e.(*ast.SelectorExpr)
	if !ok {
		return nil
	}
	for {
		x := sel.X
		if _, bound := en.deref[types.ExprString(x)]; bound {
			return nil
		}
		if id, ok := x.(*ast.Ident); ok {
			if vt, ok := en.vars[id.Name]; ok && vt.k == kOpt && len(vt.sub) == 1 && vt.sub[0].k == kStruct {
				return x
			}
			return nil
		}
		if chain, ok := selChain(x); ok && en.rctx && chain[0] == en.recv && len(chain) >= 2 {
			name := strings.Join(chain, "_")
			vt, known := t.ctxVars[name]
			if !known {
				vt = t.ctxFieldType(chain[1:])
			}
			if vt.k == kOpt && len(vt.sub) == 1 && vt.sub[0].k == kStruct {
				return x
			}
		}
		inner, ok := x.(*ast.SelectorExpr)
		if !ok {
			return nil
		}
		if root, ok := selChain(inner); ok { // a pointer field of a record that is itself at hand (p.q.f with p a record or a bound pointer)
			if rt, isVar := en.vars[root[0]]; isVar && rt.k == kStruct || en.deref[types.ExprString(inner.X)] != "" {
				saved := t.errs
				_, xt := t.expr(x, en.clone())
				t.errs = saved
				if xt.k == kOpt && len(xt.sub) == 1 && xt.sub[0].k == kStruct {
					return x
				}
			}
		}
		sel = inner
	}
}

// nilDerefs: the pointers a statement's own expressions dereference without a guard in the same expression
// (`p != nil && p.f`, `p == nil || p.f` guard p), in evaluation order, each once
func (t *tr) nilDerefs(s ast.Stmt, en *env) []ast.Expr {
	var out []ast.Expr
	seen := map[string]bool{}
	var walk func(e ast.Expr, guarded map[string]bool)
	walk = func(e ast.Expr, guarded map[string]bool) {
		switch x := e.(type) {
		case nil:
			return
		case *ast.ParenExpr:
			walk(x.X, guarded)
		case *ast.BinaryExpr:
			if x.Op == token.LAND || x.Op == token.LOR {
				g := map[string]bool{}
				for k := range guarded {
					g[k] = true
				}
				walk(x.X, g)
				want := token.NEQ
				if x.Op == token.LOR {
					want = token.EQL
				}
				var collect func(c ast.Expr)
				collect = func(c ast.Expr) {
					if be, ok := c.(*ast.BinaryExpr); ok && be.Op == x.Op {
						collect(be.X)
						collect(be.Y)
						return
					}
					if px, ok := isNilTest(c, want); ok {
						g[types.ExprString(px)] = true
					}
				}
				collect(x.X)
				walk(x.Y, g)
				return
			}
			walk(x.X, guarded)
			walk(x.Y, guarded)
		case *ast.UnaryExpr:
			walk(x.X, guarded)
		case *ast.StarExpr:
			walk(x.X, guarded)
		case *ast.CallExpr:
			if mentionsLogger(x.Fun) {
				return
			}
			if chain, ok := selChain(x.Fun); ok && strings.HasPrefix(strings.Join(chain, "."), "fmt.") {
				return // message arguments are not translated
			}
			if sel, ok := x.Fun.(*ast.SelectorExpr); ok { // a method with a pointer receiver that may be nil is CALLED, not dereferenced
				if b := t.ptrBase(sel, en); b != nil && types.ExprString(b) == types.ExprString(sel.X) {
					if _, bt := t.expr(b, en.clone()); bt.k == kOpt && t.recvOpt[bt.sub[0].name+"_"+sel.Sel.Name] {
						for _, a := range x.Args {
							walk(a, guarded)
						}
						return
					}
				}
			}
			walk(x.Fun, guarded)
			for _, a := range x.Args {
				walk(a, guarded)
			}
		case *ast.CompositeLit:
			for _, el := range x.Elts {
				if kv, ok := el.(*ast.KeyValueExpr); ok {
					if key, ok := kv.Key.(*ast.Ident); ok && key.Name == "message" {
						continue
					}
					walk(kv.Value, guarded)
				}
			}
		case *ast.IndexExpr:
			walk(x.X, guarded)
			walk(x.Index, guarded)
		case *ast.SelectorExpr:
			if b := t.ptrBase(x, en); b != nil {
				k := types.ExprString(b)
				if !guarded[k] && !seen[k] {
					seen[k] = true
					out = append(out, b)
				}
				return
			}
			walk(x.X, guarded)
		}
	}
	switch v := s.(type) {
	case *ast.IfStmt:
		if v.Init == nil {
			walk(v.Cond, map[string]bool{})
		}
	case *ast.AssignStmt:
		for _, r := range v.Rhs {
			walk(r, map[string]bool{})
		}
	case *ast.ReturnStmt:
		for _, r := range v.Results {
			walk(r, map[string]bool{})
		}
	case *ast.SwitchStmt:
		walk(v.Tag, map[string]bool{})
	}
	return out
}

func isNilTest(e ast.Expr, op token.Token) (ast.Expr, bool) {
	be, ok := e.(*ast.BinaryExpr)
	if !ok || be.Op != op {
		return nil, false
	}
	if id, ok := be.Y.(*ast.Ident); ok && id.Name == "nil" {
		return be.X, true
	}
	return nil, false
}

func (t *tr) binary(v *ast.BinaryExpr, en *env) (string, ty) {
	if v.Op == token.LAND { // p != nil && rest...: the rest is evaluated only below Some (&& associates to the left)
		var conj []ast.Expr
		var flat func(e ast.Expr)
		flat = func(e ast.Expr) {
			if be, ok := e.(*ast.BinaryExpr); ok && be.Op == token.LAND {
				flat(be.X)
				flat(be.Y)
				return
			}
			conj = append(conj, e)
		}
		flat(v)
		if px, ok := isNilTest(conj[0], token.NEQ); ok && len(conj) > 1 {
			if id, ok := px.(*ast.Ident); ok {
				if pt := en.vars[id.Name]; pt.k == kOpt && pt.sub[0].k == kStruct {
					ben := en.clone()
					ben.vars[id.Name] = pt.sub[0]
					restE := conj[1]
					for _, c := range conj[2:] {
						restE = &ast.BinaryExpr{X: restE, Op: token.LAND, Y: c}
					}
					rest, _ := t.expr(restE, ben)
					return "(match " + id.Name + " with None => false | Some " + id.Name + " => " + rest + " end)", ty{k: kBool}
				}
			}
		}
	}
	a, at := t.expr(v.X, en)
	b, bt := t.expr(v.Y, en)
	if at.k == kErr && (v.Op == token.NEQ || v.Op == token.EQL) { // err != nil / err == nil
		if id, ok := v.Y.(*ast.Ident); ok && id.Name == "nil" {
			if v.Op == token.NEQ {
				return "(negb (err_eqb " + a + " EOK))", ty{k: kBool}
			}
			return "(err_eqb " + a + " EOK)", ty{k: kBool}
		}
	}
	if at.k == kOpt && (v.Op == token.NEQ || v.Op == token.EQL) {
		if id, ok := v.Y.(*ast.Ident); ok && id.Name == "nil" {
			if v.Op == token.NEQ {
				return "(is_some " + a + ")", ty{k: kBool}
			}
			return "(negb (is_some " + a + "))", ty{k: kBool}
		}
	}
	if at.k == kFloat && bt.k == kInt && t.isConst(v.Y) { // an untyped constant next to a float64 is a float64
		b, bt = "(f64_of_N "+b+")", ty{k: kFloat}
	}
	if bt.k == kFloat && at.k == kInt && t.isConst(v.X) {
		a, at = "(f64_of_N "+a+")", ty{k: kFloat}
	}
	if (at.k == kZ && bt.k == kInt && t.isConst(v.Y)) || (bt.k == kZ && at.k == kInt && t.isConst(v.X)) { // named untyped constant next to an int
		if at.k == kInt {
			a, at = "(Z.of_N "+a+")", ty{k: kZ}
		} else if _, lit := v.Y.(*ast.BasicLit); !lit {
			b, bt = "(Z.of_N "+b+")", ty{k: kZ}
		}
	}
	if at.k == kZ || bt.k == kZ { // an untyped integer constant next to an int is an int
		if bl, ok := v.X.(*ast.BasicLit); ok && bl.Kind == token.INT && at.k == kInt {
			a, at = a+"%Z", ty{k: kZ}
		}
		if bl, ok := v.Y.(*ast.BasicLit); ok && bl.Kind == token.INT && bt.k == kInt {
			b, bt = b+"%Z", ty{k: kZ}
		}
	}
	if at.k == kHash && bt.k == kHash && (v.Op == token.EQL || v.Op == token.NEQ) {
		t.hashEq = true
		if v.Op == token.EQL {
			return "(hash_eqb " + a + " " + b + ")", ty{k: kBool}
		}
		return "(negb (hash_eqb " + a + " " + b + "))", ty{k: kBool}
	}
	k := at.k
	if k == kUnknown {
		k = bt.k
	}
	op2 := func(f string, r kind) (string, ty) { return "(" + f + " " + a + " " + b + ")", ty{k: r} }
	switch k {
	case kInt:
		switch v.Op {
		case token.ADD:
			return op2("u64_add", kInt)
		case token.SUB:
			return op2("u64_sub", kInt)
		case token.MUL:
			return op2("u64_mul", kInt)
		case token.QUO:
			return op2("u64_div", kInt)
		case token.REM:
			return op2("u64_mod", kInt)
		case token.AND:
			return op2("N.land", kInt)
		case token.OR:
			return op2("N.lor", kInt)
		case token.SHL:
			return op2("u64_shl", kInt)
		case token.SHR:
			return op2("N.shiftr", kInt)
		case token.LSS:
			return op2("N.ltb", kBool)
		case token.LEQ:
			return op2("N.leb", kBool)
		case token.GTR:
			return "(N.ltb " + b + " " + a + ")", ty{k: kBool}
		case token.GEQ:
			return "(N.leb " + b + " " + a + ")", ty{k: kBool}
		case token.EQL:
			return op2("N.eqb", kBool)
		case token.NEQ:
			return "(negb (N.eqb " + a + " " + b + "))", ty{k: kBool}
		}
	case kZ:
		switch v.Op {
		case token.ADD:
			return op2("i64_add", kZ)
		case token.SUB:
			return op2("i64_sub", kZ)
		case token.MUL:
			return op2("i64_mul", kZ)
		case token.LSS:
			return op2("Z.ltb", kBool)
		case token.LEQ:
			return op2("Z.leb", kBool)
		case token.GTR:
			return "(Z.ltb " + b + " " + a + ")", ty{k: kBool}
		case token.GEQ:
			return "(Z.leb " + b + " " + a + ")", ty{k: kBool}
		case token.EQL:
			return op2("Z.eqb", kBool)
		case token.NEQ:
			return "(negb (Z.eqb " + a + " " + b + "))", ty{k: kBool}
		}
	case kFloat:
		switch v.Op {
		case token.ADD:
			return op2("f64_add", kFloat)
		case token.QUO:
			return op2("f64_div", kFloat)
		case token.MUL:
			return op2("f64_mul", kFloat)
		case token.LSS:
			return op2("f64_lt", kBool)
		case token.GTR:
			return "(f64_lt " + b + " " + a + ")", ty{k: kBool}
		case token.LEQ:
			return op2("f64_le", kBool)
		case token.GEQ:
			return "(f64_le " + b + " " + a + ")", ty{k: kBool}
		}
	case kBool:
		switch v.Op {
		case token.LAND:
			return op2("andb", kBool)
		case token.LOR:
			return op2("orb", kBool)
		}
	}
	t.fail(v, "operator %s on %s", v.Op, at.coq())
	return "?", ty{k: kUnknown}
}

// ---------------------------------------------------------------------------------------------
// statements
// ---------------------------------------------------------------------------------------------

func (t *tr) dropped(s ast.Stmt, en *env) bool {
	switch v := s.(type) {
	case *ast.ExprStmt:
		if c, ok := v.X.(*ast.CallExpr); ok {
			if mentionsLogger(c.Fun) {
				return true
			}
			if chain, ok := selChain(c.Fun); ok && en.rctx && chain[0] == en.recv {
				for _, d := range t.tg.DropCalls {
					if d == chain[len(chain)-1] {
						return true
					}
				}
			}
			if id, ok := c.Fun.(*ast.Ident); ok && en.vars[id.Name].k == kLog {
				return true
			}
		}
	case *ast.AssignStmt:
		if len(v.Rhs) == 1 && mentionsLogger(v.Rhs[0]) {
			if _, isCall := v.Rhs[0].(*ast.CallExpr); !isCall {
				for _, l := range v.Lhs {
					if id, ok := l.(*ast.Ident); ok {
						en.vars[id.Name] = ty{k: kLog}
					}
				}
				return true
			}
		}
	case *ast.IfStmt:
		if v.Else != nil || v.Init != nil {
			return false
		}
		for _, b := range v.Body.List {
			if !t.dropped(b, en) {
				return false
			}
		}
		return true
	}
	return false
}

func endsWithReturn(list []ast.Stmt) bool {
	if len(list) == 0 {
		return false
	}
	switch v := list[len(list)-1].(type) {
	case *ast.ReturnStmt:
		return true
	case *ast.BranchStmt:
		return v.Tok == token.CONTINUE || v.Tok == token.BREAK
	case *ast.IfStmt:
		if v.Else == nil {
			return false
		}
		eb, ok := v.Else.(*ast.BlockStmt)
		return ok && endsWithReturn(v.Body.List) && endsWithReturn(eb.List)
	}
	return false
}

// variables (and record variables through field assignment) assigned in a statement list, excluding those it declares
func assigned(list []ast.Stmt, acc map[string]bool) {
	declared := map[string]bool{}
	for _, s := range list {
		switch v := s.(type) {
		case *ast.AssignStmt:
			for _, l := range v.Lhs {
				switch x := l.(type) {
				case *ast.Ident:
					if v.Tok == token.DEFINE {
						declared[x.Name] = true
					} else if !declared[x.Name] {
						acc[x.Name] = true
					}
				case *ast.SelectorExpr:
					if id, ok := x.X.(*ast.Ident); ok && !declared[id.Name] {
						acc[id.Name] = true
					}
					if chain, ok := selChain(x); ok {
						acc[strings.Join(chain, "_")] = true
					}
				case *ast.IndexExpr:
					if chain, ok := selChain(x.X); ok && !declared[chain[0]] {
						acc[strings.Join(chain, "_")] = true
					}
				}
			}
		case *ast.IncDecStmt:
			if id, ok := v.X.(*ast.Ident); ok && !declared[id.Name] {
				acc[id.Name] = true
			}
		case *ast.DeclStmt:
			if gd, ok := v.Decl.(*ast.GenDecl); ok {
				for _, sp := range gd.Specs {
					if vs, ok := sp.(*ast.ValueSpec); ok {
						for _, n := range vs.Names {
							declared[n.Name] = true
						}
					}
				}
			}
		case *ast.ForStmt:
			assigned(v.Body.List, acc)
		case *ast.RangeStmt:
			assigned(v.Body.List, acc)
		case *ast.SwitchStmt:
			for _, c := range v.Body.List {
				assigned(c.(*ast.CaseClause).Body, acc)
			}
		case *ast.IfStmt:
			assigned(v.Body.List, acc)
			if eb, ok := v.Else.(*ast.BlockStmt); ok {
				assigned(eb.List, acc)
			}
			if ei, ok := v.Else.(*ast.IfStmt); ok {
				assigned([]ast.Stmt{ei}, acc)
			}
		}
	}
}

// block translates a statement list; `tail` is the expression to end with when the list falls through ("" = must return)
func (t *tr) block(list []ast.Stmt, en *env, tail string, ind string) string {
	if len(list) == 0 {
		if tail == "" {
			t.fail(nil, "control reaches the end of a function body without return")
			return "?"
		}
		if tail == "\x00CONT" { // end of the body of `for { }`: next iteration, with the loop variables as they are now
			return t.nextIter(en)
		}
		return tail
	}
	s, rest := list[0], list[1:]
	if t.dropped(s, en) {
		return t.block(rest, en, tail, ind)
	}
	if is, ok := s.(*ast.IfStmt); ok && is.Init == nil && en.panicVar != "" {
		// `if A && B` / `if A || B` where only B dereferences a pointer: B is evaluated (and can panic) only when A lets it.
		// The statement is split into two nested ifs, so that the dereference is met on that path only.
		if be, ok := is.Cond.(*ast.BinaryExpr); ok && (be.Op == token.LAND || be.Op == token.LOR) {
			left := t.nilDerefs(&ast.IfStmt{Cond: be.X, Body: is.Body}, en)
			if all := t.nilDerefs(s, en); len(left) == 0 && len(all) > 0 {
				inner := &ast.IfStmt{Cond: be.Y, Body: is.Body, Else: is.Else}
				var outer *ast.IfStmt
				if be.Op == token.LAND {
					outer = &ast.IfStmt{Cond: be.X, Body: &ast.BlockStmt{List: []ast.Stmt{inner}}, Else: is.Else}
				} else {
					outer = &ast.IfStmt{Cond: be.X, Body: is.Body, Else: &ast.BlockStmt{List: []ast.Stmt{inner}}}
				}
				return t.block(append([]ast.Stmt{outer}, rest...), en, tail, ind)
			}
		}
	}
	if ds := t.nilDerefs(s, en); len(ds) > 0 && en.panicVar != "" && (!en.inLoop || en.loopRet) {
		// the statement dereferences a pointer that no test in sight shows to be non-nil: Go panics when it is nil. The generated
		// function takes what happens then as a parameter (a Section variable of its result type): a theorem about it for every
		// value of that parameter is a theorem about the runs that do not panic, and cannot be proved if a panic is reachable
		d := ds[0]
		pc, pt := t.expr(d, en)
		some := en.clone()
		bound := ""
		if id, ok := d.(*ast.Ident); ok {
			bound = id.Name
			some.vars[id.Name] = pt.sub[0]
			some.wasPtr[id.Name] = true
		} else {
			t.fresh++
			bound = fmt.Sprintf("p%d__", t.fresh)
			some.deref[types.ExprString(d)] = bound
		}
		t.usePanic(en)
		pv := en.panicVar
		if en.inLoop { // inside a fold with early returns: the panic value leaves the loop like a returned value
			pv = t.loopTail(en, en.panicVar)
		}
		return "match " + pc + " with\n" + ind + "  | None => " + pv + "\n" + ind + "  | Some " + bound + " =>\n" + ind + "    " +
			t.block(list, some, tail, ind+"    ") + "\n" + ind + "  end"
	}
	switch v := s.(type) {
	case *ast.BranchStmt:
		if v.Tok == token.CONTINUE && en.inLoop {
			return t.loopTail(en, "")
		}
		if v.Tok == token.BREAK && en.breakCode != "" {
			return en.breakCode
		}
		if v.Tok == token.CONTINUE && en.contCall != "" {
			return t.nextIter(en)
		}
		t.fail(v, "branch statement %s", v.Tok)
		return "?"
	case *ast.DeclStmt: // `var x T`: x is declared, every path assigns it before it is read
		gd, ok := v.Decl.(*ast.GenDecl)
		if !ok || gd.Tok != token.VAR {
			t.fail(v, "declaration")
			return "?"
		}
		for _, sp := range gd.Specs {
			vs := sp.(*ast.ValueSpec)
			if len(vs.Values) != 0 {
				t.fail(v, "var declaration with an initial value")
				return "?"
			}
			for _, n := range vs.Names {
				vt := goType(vs.Type, t.structs)
				if vt.k == kOpt && len(vt.sub) == 1 && vt.sub[0].k == kStruct { // a pointer that a lookup fills
					vt = vt.sub[0]
				}
				en.vars[n.Name] = vt
				if vt.k == kErr || vt.k == kInt || vt.k == kZ || vt.k == kBool { // scalars start at their zero value
					return "let " + n.Name + " := " + zero(vt) + " in\n" + ind + t.block(append([]ast.Stmt{&ast.DeclStmt{Decl: &ast.GenDecl{Tok: token.VAR, Specs: restSpecs(gd.Specs, sp, n.Name)}}}, rest...), en, tail, ind)
				}
			}
		}
		return t.block(rest, en, tail, ind)
	case *ast.ForStmt:
		return t.forLoop(v, rest, en, tail, ind)
	case *ast.RangeStmt: // for _, x := range xs { body }: a fold over the elements, the state = the outer variables the body assigns
		if k, ok := v.Key.(*ast.Ident); !ok || k.Name != "_" || v.Tok != token.DEFINE || v.Value == nil {
			t.fail(v, "range statement that is not `for _, x := range xs`")
			return "?"
		}
		xs, xt := t.expr(v.X, en)
		if xt.k != kList {
			t.fail(v, "range over a non-slice")
			return "?"
		}
		hasRet := hasReturn(v.Body.List)
		iv := v.Value.(*ast.Ident).Name
		acc := map[string]bool{}
		assigned(v.Body.List, acc)
		var names []string
		for n := range acc {
			if _, ok := en.vars[n]; ok && n != iv {
				names = append(names, n)
			}
		}
		sort.Strings(names)
		if len(names) == 0 && !hasRet {
			t.fail(v, "loop without effect on the translated state")
			return "?"
		}
		tup, pat := "tt", "tt" // a loop that only returns early carries nothing
		if len(names) == 1 {
			tup, pat = names[0], names[0]
		}
		if len(names) > 1 {
			tup = "(" + strings.Join(names, ", ") + ")"
			pat = "'" + tup
		}
		ben := en.clone()
		ben.vars[iv] = xt.sub[0]
		ben.inLoop, ben.loopTup, ben.loopRet = true, tup, hasRet
		if !hasRet {
			body := t.block(v.Body.List, ben, tup, ind+"    ")
			return "let " + pat + " :=\n" + ind + "  fold_left (fun " + pat + " " + iv + " =>\n" + ind + "    " + body + ")\n" + ind + "  " + xs + " " + tup + " in\n" + ind + t.block(rest, en, tail, ind)
		}
		// an early `return` inside the loop: the accumulator carries `option result`; once it is set the remaining elements are skipped
		body := t.block(v.Body.List, ben, t.loopTail(ben, ""), ind+"    ")
		loop := "fold_left (fun '(" + tup + ", ret__) " + iv + " =>\n" + ind + "    match ret__ with Some _ => (" + tup + ", ret__) | None =>\n" + ind + "    " +
			body + "\n" + ind + "    end)\n" + ind + "  " + xs + " (" + tup + ", None)"
		return "let '(" + tup + ", ret__) :=\n" + ind + "  " + loop + " in\n" + ind + "match ret__ with Some r__ => r__ | None =>\n" + ind +
			t.block(rest, en, tail, ind) + "\n" + ind + "end"
	case *ast.SwitchStmt: // switch tag { case a: .. case b: .. default: .. } = the if / else-if chain, cases in source order
		if v.Init != nil || v.Tag == nil {
			t.fail(v, "switch without a tag or with an init statement")
			return "?"
		}
		var chain ast.Stmt
		var deflt []ast.Stmt
		var clauses []*ast.CaseClause
		for _, c := range v.Body.List {
			cc := c.(*ast.CaseClause)
			if cc.List == nil {
				deflt = cc.Body
			} else {
				clauses = append(clauses, cc)
			}
			for _, b := range cc.Body {
				if br, ok := b.(*ast.BranchStmt); ok && br.Tok == token.FALLTHROUGH {
					t.fail(v, "fallthrough")
					return "?"
				}
			}
		}
		chain = &ast.BlockStmt{List: deflt}
		for i := len(clauses) - 1; i >= 0; i-- {
			var cond ast.Expr
			for _, val := range clauses[i].List {
				eq := &ast.BinaryExpr{X: v.Tag, Op: token.EQL, Y: val}
				if cond == nil {
					cond = eq
				} else {
					cond = &ast.BinaryExpr{X: cond, Op: token.LOR, Y: eq}
				}
			}
			chain = &ast.IfStmt{Cond: cond, Body: &ast.BlockStmt{List: clauses[i].Body}, Else: chain}
		}
		if is, ok := chain.(*ast.IfStmt); ok {
			if eb, ok := is.Else.(*ast.IfStmt); ok { // the block() below wants a block in the else position
				is.Else = &ast.BlockStmt{List: []ast.Stmt{eb}}
			}
			fixElse(is)
			return t.block(append([]ast.Stmt{is}, rest...), en, tail, ind)
		}
		return t.block(append(append([]ast.Stmt{}, deflt...), rest...), en, tail, ind)
	case *ast.ReturnStmt:
		var parts []string
		if len(v.Results) == 0 && len(en.named) > 0 { // bare return: the named results
			parts = append(parts, en.named...)
		}
		for i, r := range v.Results {
			if id, ok := r.(*ast.Ident); ok && id.Name == "nil" && i < len(en.rets) && en.rets[i].k == kErr {
				parts = append(parts, "EOK")
				continue
			}
			if id, ok := r.(*ast.Ident); ok && i < len(en.rets) && en.rets[i].k == kErr && (strings.HasPrefix(id.Name, "Err") || strings.HasPrefix(id.Name, "err")) {
				if _, local := en.vars[id.Name]; !local { // a package-level sentinel error
					parts = append(parts, "EFail")
					continue
				}
			}
			c, ct := t.expr(r, en)
			if bl, ok := r.(*ast.BasicLit); ok && bl.Kind == token.INT && ct.k == kInt && i < len(en.rets) && en.rets[i].k == kZ {
				c += "%Z"
			}
			if i < len(en.rets) && en.rets[i].k == kOpt && ct.k == kStruct { // a pointer result that is this (non-nil) record
				c = "(Some " + c + ")"
			}
			parts = append(parts, c)
		}
		parts = append(parts, en.outs...)
		res := "(" + strings.Join(parts, ", ") + ")"
		if len(parts) == 1 {
			res = parts[0]
		}
		if en.inLoop {
			if !en.loopRet {
				t.fail(v, "return inside a loop that was not recognised as having early returns")
			}
			return t.loopTail(en, res)
		}
		return res
	case *ast.AssignStmt:
		if len(v.Rhs) != 1 {
			t.fail(v, "parallel assignment")
			return "?"
		}
		if v.Tok == token.ADD_ASSIGN || v.Tok == token.SUB_ASSIGN || v.Tok == token.MUL_ASSIGN { // x op= e  is  x = x op e
			op := map[token.Token]token.Token{token.ADD_ASSIGN: token.ADD, token.SUB_ASSIGN: token.SUB, token.MUL_ASSIGN: token.MUL}[v.Tok]
			v = &ast.AssignStmt{Lhs: v.Lhs, Tok: token.ASSIGN, Rhs: []ast.Expr{&ast.BinaryExpr{X: v.Lhs[0], Op: op, Y: v.Rhs[0]}}}
		} else if v.Tok != token.ASSIGN && v.Tok != token.DEFINE {
			t.fail(v, "assignment operator %s", v.Tok)
			return "?"
		}
		if ue, ok := v.Rhs[0].(*ast.UnaryExpr); ok && ue.Op == token.AND && v.Tok == token.DEFINE && len(v.Lhs) == 1 { // p := &T{..}: p is the record
			if _, isLit := ue.X.(*ast.CompositeLit); isLit {
				v = &ast.AssignStmt{Lhs: v.Lhs, Tok: token.DEFINE, Rhs: []ast.Expr{ue.X}}
			}
		}
		if oc, ok := t.oracleCall(v.Rhs[0], en); ok && len(v.Lhs) == 2 { // x, err = t.lookup(tx, key)
			x, ok1 := v.Lhs[0].(*ast.Ident)
			e, ok2 := v.Lhs[1].(*ast.Ident)
			if !ok1 || !ok2 {
				t.fail(v, "targets of a lookup")
				return "?"
			}
			branch := func(xval, eval string) string {
				ben := en.clone()
				ben.vars[x.Name] = ty{k: kStruct, name: "TreeNode"}
				ben.vars[e.Name] = ty{k: kErr}
				return "let " + x.Name + " := " + xval + " in let " + e.Name + " := " + eval + " in\n" + ind + "    " + t.block(rest, ben, tail, ind+"    ")
			}
			en.vars[x.Name] = ty{k: kStruct, name: "TreeNode"}
			en.vars[e.Name] = ty{k: kErr}
			return "match " + oc + " with\n" + ind + "  | LFound found__ => " + branch("found__", "EOK") + "\n" + ind +
				"  | LNotFound => " + branch(zero(ty{k: kStruct, name: "TreeNode"}), "ENotFound") + "\n" + ind +
				"  | LFail => " + branch(zero(ty{k: kStruct, name: "TreeNode"}), "EFail") + "\n" + ind + "  end"
		}
		if id, ok := v.Rhs[0].(*ast.Ident); ok && id.Name == "nil" && len(v.Lhs) == 1 { // err = nil
			if l, ok := v.Lhs[0].(*ast.Ident); ok && en.vars[l.Name].k == kErr {
				return "let " + l.Name + " := EOK in\n" + ind + t.block(rest, en, tail, ind)
			}
		}
		c, ct := t.expr(v.Rhs[0], en)
		if bl, ok := v.Rhs[0].(*ast.BasicLit); ok && bl.Kind == token.INT && v.Tok == token.DEFINE && t.tg.IntLit {
			c, ct = c+"%Z", ty{k: kZ}
		}
		if len(v.Lhs) == 1 {
			switch l := v.Lhs[0].(type) {
			case *ast.Ident:
				if old, exists := en.vars[l.Name]; exists && v.Tok == token.ASSIGN && old.k == kOpt && len(old.sub) == 1 && old.sub[0].k == kStruct && ct.k == kStruct {
					// p = q where p is a pointer variable and q stands for a record known to be non-nil: p points to it
					return "let " + l.Name + " := (Some " + c + ") in\n" + ind + t.block(rest, en, tail, ind)
				}
				if ct.k == kStruct && en.wasPtr[id0(v.Rhs[0])] { // q := p where p is a bound pointer: q is one too
					en.wasPtr[l.Name] = true
				} else {
					delete(en.wasPtr, l.Name)
				}
				en.vars[l.Name] = ct
				return "let " + l.Name + " := " + c + " in\n" + ind + t.block(rest, en, tail, ind)
			case *ast.IndexExpr: // a[i] = e
				chain, ok := selChain(l.X)
				name := strings.Join(chain, "_")
				if !ok || en.vars[name].k != kList {
					t.fail(v, "assignment to an element of something that is not a list variable")
					return "?"
				}
				i, _ := t.expr(l.Index, en)
				return "let " + name + " := list_set " + name + " " + i + " " + c + " in\n" + ind + t.block(rest, en, tail, ind)
			case *ast.SelectorExpr:
				if chain, ok := selChain(l); ok {
					if _, isVar := en.vars[strings.Join(chain, "_")]; isVar {
						name := strings.Join(chain, "_")
						return "let " + name + " := " + c + " in\n" + ind + t.block(rest, en, tail, ind)
					}
				}
				id, ok := l.X.(*ast.Ident)
				if !ok || en.vars[id.Name].k != kStruct {
					t.fail(v, "assignment to a field of a non-record variable")
					return "?"
				}
				sn := en.vars[id.Name].name
				return "let " + id.Name + " := set_" + sn + "_" + l.Sel.Name + " " + id.Name + " " + c + " in\n" + ind + t.block(rest, en, tail, ind)
			}
			t.fail(v, "assignment target %T", v.Lhs[0])
			return "?"
		}
		var names []string
		for i, l := range v.Lhs {
			id, ok := l.(*ast.Ident)
			if !ok {
				t.fail(v, "tuple assignment target %T", l)
				return "?"
			}
			names = append(names, id.Name)
			if ct.k == kTuple && i < len(ct.sub) {
				en.vars[id.Name] = ct.sub[i]
				delete(en.wasPtr, id.Name)
			}
		}
		return "let '(" + strings.Join(names, ", ") + ") := " + c + " in\n" + ind + t.block(rest, en, tail, ind)
	case *ast.IfStmt:
		if v.Init != nil { // if x := e; cond { .. }: the init statement first (its variables are fresh names in the targets)
			plain := &ast.IfStmt{Cond: v.Cond, Body: v.Body, Else: v.Else}
			return t.block(append([]ast.Stmt{v.Init, plain}, rest...), en, tail, ind)
		}
		if be, ok := v.Cond.(*ast.BinaryExpr); ok && be.Op == token.LOR && v.Else == nil && endsWithReturn(v.Body.List) {
			if px, ok := isNilTest(be.X, token.EQL); ok { // if p == nil || R { return .. }; rest
				if id, ok := px.(*ast.Ident); ok {
					if pt := en.vars[id.Name]; pt.k == kOpt && pt.sub[0].k == kStruct {
						a := t.block(v.Body.List, en.clone(), "", ind+"    ")
						some := en.clone()
						some.vars[id.Name] = pt.sub[0]
						r, _ := t.expr(be.Y, some)
						a2 := t.block(v.Body.List, some.clone(), "", ind+"      ")
						b := t.block(rest, some, tail, ind+"      ")
						return "match " + id.Name + " with\n" + ind + "  | None =>\n" + ind + "    " + a + "\n" + ind + "  | Some " + id.Name + " =>\n" + ind +
							"    if " + r + " then\n" + ind + "      " + a2 + "\n" + ind + "    else\n" + ind + "      " + b + "\n" + ind + "  end"
					}
				}
			}
		}
		if be, ok := v.Cond.(*ast.BinaryExpr); ok && (be.Op == token.EQL || be.Op == token.NEQ) && v.Else == nil && endsWithReturn(v.Body.List) {
			if nid, ok := be.Y.(*ast.Ident); ok && nid.Name == "nil" {
				if pc, pt := t.expr(be.X, en.clone()); pt.k == kOpt && len(pt.sub) == 1 && pt.sub[0].k != kUnknown {
					// `if p == nil { return .. }` / `if p != nil { return .. *p .. }`: a match; below `Some`, an identifier p is the value
					// pointed to, any other pointer expression is dereferenced through the bound name
					key := types.ExprString(be.X)
					t.fresh++
					bound := fmt.Sprintf("p%d__", t.fresh)
					some := en.clone()
					if id, ok := be.X.(*ast.Ident); ok {
						bound = id.Name
						some.vars[id.Name] = pt.sub[0]
					} else {
						some.deref[key] = bound
					}
					none := en.clone()
					var a, b string
					if be.Op == token.EQL {
						a = t.block(v.Body.List, none, "", ind+"    ")
						b = t.block(rest, some, tail, ind+"    ")
					} else {
						b = t.block(v.Body.List, some, "", ind+"    ")
						a = t.block(rest, none, tail, ind+"    ")
					}
					return "match " + pc + " with\n" + ind + "  | None =>\n" + ind + "    " + a + "\n" + ind + "  | Some " + bound + " =>\n" + ind + "    " + b + "\n" + ind + "  end"
				}
			}
		}
		c, _ := t.expr(v.Cond, en)
		var elseList []ast.Stmt
		hasElse := false
		if v.Else != nil {
			eb, ok := v.Else.(*ast.BlockStmt)
			if !ok {
				if ei, isIf := v.Else.(*ast.IfStmt); isIf { // else if ..: an else block holding that if
					eb = &ast.BlockStmt{List: []ast.Stmt{ei}}
				} else {
					t.fail(v, "else branch")
					return "?"
				}
			}
			elseList, hasElse = eb.List, true
		}
		thenRet := endsWithReturn(v.Body.List)
		elseRet := hasElse && endsWithReturn(elseList)
		switch {
		case thenRet && (!hasElse || elseRet || true):
			// then-branch returns: the rest of the function is the else-branch followed by what comes after the if
			a := t.block(v.Body.List, en.clone(), "", ind+"  ")
			var b string
			if hasElse {
				b = t.block(append(append([]ast.Stmt{}, elseList...), rest...), en, tail, ind+"  ")
			} else {
				b = t.block(rest, en, tail, ind+"  ")
			}
			return "if " + c + " then\n" + ind + "  " + a + "\n" + ind + "else\n" + ind + "  " + b
		case hasReturn(v.Body.List) || (hasElse && hasReturn(elseList)) ||
			(en.contCall != "" && (hasBreak(v.Body.List) || hasBreak(elseList) || hasContinue(v.Body.List) || hasContinue(elseList))):
			// a branch may return or fall through: each branch is followed by the rest of the function
			a := t.block(append(append([]ast.Stmt{}, v.Body.List...), rest...), en.clone(), tail, ind+"  ")
			b := t.block(append(append([]ast.Stmt{}, elseList...), rest...), en.clone(), tail, ind+"  ")
			return "if " + c + " then\n" + ind + "  " + a + "\n" + ind + "else\n" + ind + "  " + b
		default:
			// no branch returns: merge the variables the branches assign
			acc := map[string]bool{}
			assigned(v.Body.List, acc)
			assigned(elseList, acc)
			var names []string
			for n := range acc {
				if _, ok := en.vars[n]; ok {
					names = append(names, n)
				}
			}
			sort.Strings(names)
			if len(names) == 0 {
				t.fail(v, "if statement without effect on the translated state")
				return "?"
			}
			tup := names[0]
			pat := names[0]
			if len(names) > 1 {
				tup = "(" + strings.Join(names, ", ") + ")"
				pat = "'" + tup
			}
			a := t.block(v.Body.List, en.clone(), tup, ind+"  ")
			b := tup
			if hasElse {
				b = t.block(elseList, en.clone(), tup, ind+"  ")
			}
			return "let " + pat + " := if " + c + " then " + a + " else " + b + " in\n" + ind + t.block(rest, en, tail, ind)
		}
	}
	t.fail(s, "statement %T", s)
	return "?"
}

// usePanic declares the panic parameter of the function being translated (once)
func (t *tr) usePanic(en *env) {
	rt := ty{k: kTuple, sub: en.rets}
	if len(en.rets) == 1 {
		rt = en.rets[0]
	}
	decl := "Variable " + en.panicVar + " : " + rt.coq() + "."
	for _, d := range t.panics {
		if d == decl {
			return
		}
	}
	t.panics = append(t.panics, decl)
}

// loopTail: the value of one loop iteration that ends here: the carried tuple, plus (for loops with early returns) the returned value
func (t *tr) loopTail(en *env, ret string) string {
	if !en.loopRet {
		return en.loopTup
	}
	if ret == "" {
		return "(" + en.loopTup + ", None)"
	}
	return "(" + en.loopTup + ", Some " + ret + ")"
}

// oracleCall recognises a database lookup through the context receiver (target.Oracles) and returns its Gallina form
func (t *tr) oracleCall(e ast.Expr, en *env) (string, bool) {
	ce, ok := e.(*ast.CallExpr)
	if !ok {
		return "", false
	}
	sel, ok := ce.Fun.(*ast.SelectorExpr)
	if !ok {
		return "", false
	}
	id, ok := sel.X.(*ast.Ident)
	if !ok || !en.rctx || id.Name != en.recv {
		return "", false
	}
	name, ok := t.tg.Oracles[sel.Sel.Name]
	if !ok {
		return "", false
	}
	var args []string
	for _, a := range ce.Args {
		if aid, ok := a.(*ast.Ident); ok {
			dropped := false
			for _, d := range t.tg.DropParams {
				if d == aid.Name {
					dropped = true
				}
			}
			if dropped {
				continue
			}
		}
		c, _ := t.expr(a, en)
		args = append(args, c)
	}
	if _, known := t.ctxVars[name]; !known {
		t.ctxVars[name] = ty{k: kUnknown, name: "hash -> lookup TreeNode"}
		t.ctxOrder = append(t.ctxOrder, name)
	}
	return "(" + name + " " + strings.Join(args, " ") + ")", true
}

// packageSlice: the elements of `var name = []T{...}` declared at package level in the current file
func (t *tr) packageSlice(name string) []ast.Expr {
	for _, d := range t.file.Decls {
		gd, ok := d.(*ast.GenDecl)
		if !ok || gd.Tok != token.VAR {
			continue
		}
		for _, sp := range gd.Specs {
			vs := sp.(*ast.ValueSpec)
			for i, n := range vs.Names {
				if n.Name == name && i < len(vs.Values) {
					if cl, ok := vs.Values[i].(*ast.CompositeLit); ok {
						if _, isArr := cl.Type.(*ast.ArrayType); isArr {
							return cl.Elts
						}
					}
				}
			}
		}
	}
	return nil
}

// evalConst evaluates a constant expression exactly (go/constant): literals, iota, constants already loaded (own file first,
// then alias.Name), + - * / << >>, T(x). nil when something is not a known constant.
func (t *tr) evalConst(e ast.Expr, alias string, iota int) constant.Value {
	switch x := e.(type) {
	case *ast.ParenExpr:
		return t.evalConst(x.X, alias, iota)
	case *ast.BasicLit:
		if x.Kind == token.INT || x.Kind == token.FLOAT {
			return constant.MakeFromLiteral(x.Value, x.Kind, 0)
		}
	case *ast.Ident:
		if x.Name == "iota" {
			return constant.MakeInt64(int64(iota))
		}
		if alias != "" {
			if v, ok := t.cvals[alias+"."+x.Name]; ok {
				return v
			}
		}
		if v, ok := t.cvals[x.Name]; ok {
			return v
		}
	case *ast.SelectorExpr:
		if id, ok := x.X.(*ast.Ident); ok {
			if v, ok := t.cvals[id.Name+"."+x.Sel.Name]; ok {
				return v
			}
		}
	case *ast.CallExpr:
		if len(x.Args) == 1 {
			return t.evalConst(x.Args[0], alias, iota)
		}
	case *ast.BinaryExpr:
		a, b := t.evalConst(x.X, alias, iota), t.evalConst(x.Y, alias, iota)
		if a == nil || b == nil {
			return nil
		}
		switch x.Op {
		case token.SHL, token.SHR:
			if n, ok := constant.Uint64Val(b); ok && a.Kind() == constant.Int {
				return constant.Shift(a, x.Op, uint(n))
			}
		case token.ADD, token.SUB, token.MUL:
			return constant.BinaryOp(a, x.Op, b)
		case token.QUO:
			if a.Kind() == constant.Int && b.Kind() == constant.Int {
				return constant.BinaryOp(a, token.QUO_ASSIGN, b)
			}
			return constant.BinaryOp(a, token.QUO, b)
		}
	}
	return nil
}

// loadIntConsts registers the constants of a file that evaluate exactly: integers as N literals, other rationals as the float64
// nearest to them (f64_ratio num den: the correctly rounded quotient of two exactly representable integers, which is how Go converts
// an untyped constant to float64); under their own names and, when alias is not empty, under alias.Name
func (t *tr) loadIntConsts(f *ast.File, alias string) {
	for _, d := range f.Decls {
		gd, ok := d.(*ast.GenDecl)
		if !ok || gd.Tok != token.CONST {
			continue
		}
		var lastVals []ast.Expr
		for idx, sp := range gd.Specs {
			vs := sp.(*ast.ValueSpec)
			vals := vs.Values
			if len(vals) == 0 {
				vals = lastVals
			} else {
				lastVals = vals
			}
			for i, n := range vs.Names {
				if i >= len(vals) {
					continue
				}
				v := t.evalConst(vals[i], alias, idx)
				if v == nil {
					continue
				}
				code, ct := "", ty{k: kInt}
				if v.Kind() == constant.Int {
					if u, ok := constant.Uint64Val(v); ok {
						code = strconv.FormatUint(u, 10)
					}
				} else if v.Kind() == constant.Float {
					num, den := constant.Num(v), constant.Denom(v)
					nu, ok1 := constant.Uint64Val(num)
					du, ok2 := constant.Uint64Val(den)
					if ok1 && ok2 && nu < 1<<53 && du < 1<<53 {
						if du == 1 {
							code = strconv.FormatUint(nu, 10)
						} else {
							code, ct = fmt.Sprintf("(f64_ratio %d %d)", nu, du), ty{k: kFloat}
						}
					}
				}
				if code == "" {
					continue
				}
				_ = big.NewInt
				c := struct {
					code string
					t    ty
				}{code, ct}
				if alias != "" {
					t.cvals[alias+"."+n.Name] = v
					t.consts[alias+"."+n.Name] = c
				} else {
					t.cvals[n.Name] = v
				}
				if _, exists := t.consts[n.Name]; !exists {
					t.consts[n.Name] = c
				}
			}
		}
	}
}

// restSpecs: the var specs that remain to be declared after name `done` of spec `cur` (one name per spec in the targets)
func restSpecs(all []ast.Spec, cur ast.Spec, done string) []ast.Spec {
	var out []ast.Spec
	seen := false
	for _, sp := range all {
		if sp == cur {
			seen = true
			vs := sp.(*ast.ValueSpec)
			var names []*ast.Ident
			after := false
			for _, n := range vs.Names {
				if after {
					names = append(names, n)
				}
				if n.Name == done {
					after = true
				}
			}
			if len(names) > 0 {
				out = append(out, &ast.ValueSpec{Names: names, Type: vs.Type})
			}
			continue
		}
		if seen {
			out = append(out, sp)
		}
	}
	return out
}

// fixElse wraps every else-if of a synthetic chain into a block
func fixElse(is *ast.IfStmt) {
	if eb, ok := is.Else.(*ast.BlockStmt); ok && len(eb.List) == 1 {
		if inner, ok := eb.List[0].(*ast.IfStmt); ok {
			if ie, ok := inner.Else.(*ast.IfStmt); ok {
				inner.Else = &ast.BlockStmt{List: []ast.Stmt{ie}}
			}
			fixElse(inner)
		}
	}
}

func hasReturn(list []ast.Stmt) bool {
	found := false
	for _, s := range list {
		ast.Inspect(s, func(n ast.Node) bool {
			if _, ok := n.(*ast.ReturnStmt); ok {
				found = true
			}
			return true
		})
	}
	return found
}

func stripConv(e ast.Expr) ast.Expr {
	if ce, ok := e.(*ast.CallExpr); ok && len(ce.Args) == 1 {
		if id, ok := ce.Fun.(*ast.Ident); ok && (id.Name == "int" || id.Name == "uint8" || id.Name == "uint64" || id.Name == "uint32" || id.Name == "uint") {
			return stripConv(ce.Args[0])
		}
	}
	if pe, ok := e.(*ast.ParenExpr); ok {
		return stripConv(pe.X)
	}
	return e
}

// forLoop translates `for i := T(lo); i < hi; i++ { body }` and `for i := T(hi); i >= 0; i-- { body }` (lo, hi constants) into a fold
// over the index values whose state is the tuple of the variables the body assigns and that exist outside the loop; a loop whose
// body returns carries, in addition, the returned value (None while running): later iterations are skipped once it is set.
// foreverLoop translates `for { body }` (every path of the body returns or starts the next iteration) as a local fixpoint on
// explicit fuel: the function gets a parameter `fuel__ : nat`, and what it returns when the fuel runs out is a parameter too
// (Section variable nofuel_f of the result type). A theorem for enough fuel and every value of that parameter is a theorem about
// the terminating runs.
func (t *tr) foreverLoop(v *ast.ForStmt, rest []ast.Stmt, en *env, tail string, ind string) string {
	acc := map[string]bool{}
	assigned(v.Body.List, acc)
	var names []string
	for n := range acc {
		if _, ok := en.vars[n]; ok {
			names = append(names, n)
		}
	}
	sort.Strings(names)
	rt := ty{k: kTuple, sub: en.rets}
	if len(en.rets) == 1 {
		rt = en.rets[0]
	}
	nofuel := "nofuel_" + strings.TrimPrefix(en.panicVar, "panic_")
	decl := "Variable " + nofuel + " : " + rt.coq() + "."
	t.panics = append(t.panics, decl)
	t.needFuel = true
	var params, args, inits []string
	en = en.clone()
	for _, n := range names {
		vt := en.vars[n]
		init := n
		if vt.k == kStruct && en.wasPtr[n] { // a Go pointer carried round the loop: it is a pointer again inside
			vt = ty{k: kOpt, sub: []ty{vt}}
			init = "(Some " + n + ")"
			en.vars[n] = vt
			delete(en.wasPtr, n)
		}
		params = append(params, fmt.Sprintf("(%s : %s)", n, vt.coq()))
		args = append(args, n)
		inits = append(inits, init)
	}
	ben := en.clone()
	ben.contCall = "(loop__ fuel__ " + strings.Join(args, " ") + ")"
	ben.loopNames = names
	ben.loopPtr = map[string]bool{}
	for _, n := range names {
		if en.vars[n].k == kOpt {
			ben.loopPtr[n] = true
		}
	}
	head := ""
	if v.Cond != nil || hasBreak(v.Body.List) {
		// `for cond { .. break .. }`: leaving the loop (condition false, or break) continues with the rest of the function, which
		// reads the loop variables by name
		exit := t.block(rest, en.clone(), tail, ind+"      ")
		ben.breakCode = exit
		if v.Cond != nil {
			c, _ := t.expr(v.Cond, en)
			head = "if (negb " + c + ") then\n" + ind + "      " + exit + "\n" + ind + "    else\n" + ind + "    "
		}
	}
	body := t.block(v.Body.List, ben, "\x00CONT", ind+"      ")
	return "(fix loop__ (fuel__ : nat) " + strings.Join(params, " ") + " {struct fuel__} : " + rt.coq() + " :=\n" + ind + "    " + head + "match fuel__ with\n" + ind +
		"    | O => " + nofuel + "\n" + ind + "    | S fuel__ =>\n" + ind + "      " + body + "\n" + ind + "    end) fuel__ " + strings.Join(inits, " ")
}

// nextIter: the recursive call of a fuel loop; a carried pointer that stands for the record it points to here is passed as Some
func (t *tr) nextIter(en *env) string {
	var args []string
	for _, n := range en.loopNames {
		if en.loopPtr[n] && en.vars[n].k == kStruct {
			args = append(args, "(Some "+n+")")
		} else {
			args = append(args, n)
		}
	}
	return "(loop__ fuel__ " + strings.Join(args, " ") + ")"
}

func id0(e ast.Expr) string {
	if id, ok := e.(*ast.Ident); ok {
		return id.Name
	}
	return ""
}

func hasContinue(list []ast.Stmt) bool {
	found := false
	for _, s := range list {
		ast.Inspect(s, func(n ast.Node) bool {
			switch x := n.(type) {
			case *ast.ForStmt, *ast.RangeStmt:
				return false
			case *ast.BranchStmt:
				if x.Tok == token.CONTINUE {
					found = true
				}
			}
			return true
		})
	}
	return found
}

func hasBreak(list []ast.Stmt) bool {
	found := false
	for _, s := range list {
		ast.Inspect(s, func(n ast.Node) bool {
			switch x := n.(type) {
			case *ast.ForStmt, *ast.RangeStmt, *ast.SwitchStmt:
				return false
			case *ast.BranchStmt:
				if x.Tok == token.BREAK {
					found = true
				}
			}
			return true
		})
	}
	return found
}

func (t *tr) forLoop(v *ast.ForStmt, rest []ast.Stmt, en *env, tail string, ind string) string {
	if v.Init == nil && v.Post == nil {
		return t.foreverLoop(v, rest, en, tail, ind)
	}
	init, ok1 := v.Init.(*ast.AssignStmt)
	cond, ok2 := v.Cond.(*ast.BinaryExpr)
	post, ok3 := v.Post.(*ast.IncDecStmt)
	if !ok1 || !ok2 || !ok3 || init.Tok != token.DEFINE || len(init.Lhs) != 1 {
		t.fail(v, "for statement that is not a counted loop")
		return "?"
	}
	iv := init.Lhs[0].(*ast.Ident).Name
	if c, ok := cond.X.(*ast.Ident); !ok || c.Name != iv {
		t.fail(v, "loop condition does not test the loop variable")
		return "?"
	}
	var rng string
	switch {
	case cond.Op == token.LSS && post.Tok == token.INC:
		lo, _ := t.expr(init.Rhs[0], en)
		hi, _ := t.expr(cond.Y, en)
		rng = "(go_range " + lo + " " + hi + ")"
	case cond.Op == token.GEQ && post.Tok == token.DEC:
		if bl, ok := cond.Y.(*ast.BasicLit); !ok || bl.Value != "0" {
			t.fail(v, "downward loop that does not end at 0")
			return "?"
		}
		hi, _ := t.expr(stripConv(init.Rhs[0]), en)
		rng = "(go_range_down " + hi + ")"
	default:
		t.fail(v, "for statement that is neither `i < hi; i++` nor `i >= 0; i--`")
		return "?"
	}
	acc := map[string]bool{}
	assigned(v.Body.List, acc)
	var names []string
	for n := range acc {
		if _, ok := en.vars[n]; ok && n != iv {
			names = append(names, n)
		}
	}
	sort.Strings(names)
	if len(names) == 0 {
		t.fail(v, "loop without effect on the translated state")
		return "?"
	}
	tup, pat := names[0], names[0]
	if len(names) > 1 {
		tup = "(" + strings.Join(names, ", ") + ")"
		pat = "'" + tup
	}
	ben := en.clone()
	ben.vars[iv] = ty{k: kInt}
	ben.inLoop, ben.loopTup, ben.loopRet = true, tup, hasReturn(v.Body.List)
	body := t.block(v.Body.List, ben, t.loopTail(ben, ""), ind+"    ")
	if !ben.loopRet {
		loop := "fold_left (fun " + pat + " " + iv + " =>\n" + ind + "    " + body + ")\n" + ind + "  " + rng + " " + tup
		if len(rest) == 0 && tail == tup {
			return loop
		}
		return "let " + pat + " :=\n" + ind + "  " + loop + " in\n" + ind + t.block(rest, en, tail, ind)
	}
	loop := "fold_left (fun '(" + tup + ", ret__) " + iv + " =>\n" + ind + "    match ret__ with Some _ => (" + tup + ", ret__) | None =>\n" + ind + "    " +
		body + "\n" + ind + "    end)\n" + ind + "  " + rng + " (" + tup + ", None)"
	return "let '(" + tup + ", ret__) :=\n" + ind + "  " + loop + " in\n" + ind + "match ret__ with Some r__ => r__ | None =>\n" + ind +
		t.block(rest, en, tail, ind) + "\n" + ind + "end"
}

// ---------------------------------------------------------------------------------------------
// one target
// ---------------------------------------------------------------------------------------------

// fields of external struct parameters that the translated functions read: parameter name -> field -> Go type
var flatFields = map[string]map[string]ty{
	"newBlock": {"BlockNumber": {k: kInt}},
}

func (t *tr) run() string {
	var o strings.Builder
	o.WriteString("(* GENERATED by /verif/tools/go2coq from " + t.tg.Module + " on every check run. Do not edit. *)\n")
	o.WriteString("From Coq Require Import ZArith NArith Bool List.\nFrom Verif Require Import Base.GoNum")
	for _, im := range t.tg.Imports {
		o.WriteString(" " + im)
	}
	o.WriteString(".\nImport ListNotations.\nOpen Scope N_scope.\n\n")
	for key, ef := range t.tg.ExternFuncs { // functions of an imported generated file
		name := strings.Replace(key, ".", "_", 1)
		rt := ty{k: kTuple, sub: ef.Rets}
		if len(ef.Rets) == 1 {
			rt = ef.Rets[0]
		}
		t.rets[name] = rt
		t.recvOpt[name] = ef.RecvOpt
		t.externs[key] = true
	}
	if t.tg.Hash {
		o.WriteString("Section Hash.\n(* common.Hash as an abstract type; hash2 a b = Keccak-256 of a ++ b (newTreeNode / crypto.Keccak256Hash); hash0 = the zero value *)\n")
		o.WriteString("Variable hash : Type.\nVariable hash2 : hash -> hash -> hash.\nVariable hash0 : hash.\n(*HASHEQ*)\n")
	}
	// integer constants declared in other files
	for q, file := range t.tg.Consts {
		fs := token.NewFileSet()
		cf, err := parser.ParseFile(fs, filepath.Join(repoRoot, file), nil, 0)
		if err != nil {
			t.fail(nil, "constant %s: %v", q, err)
			continue
		}
		name := q[strings.LastIndex(q, ".")+1:]
		found := false
		for _, d := range cf.Decls {
			gd, ok := d.(*ast.GenDecl)
			if !ok || gd.Tok != token.CONST {
				continue
			}
			for _, sp := range gd.Specs {
				vs := sp.(*ast.ValueSpec)
				for i, n := range vs.Names {
					if n.Name != name || i >= len(vs.Values) {
						continue
					}
					var lit ast.Expr = vs.Values[i]
					if ce, ok := lit.(*ast.CallExpr); ok && len(ce.Args) == 1 { // uint8(32)
						lit = ce.Args[0]
					}
					if bl, ok := lit.(*ast.BasicLit); ok && bl.Kind == token.INT {
						t.consts[q] = struct {
							code string
							t    ty
						}{bl.Value, ty{k: kInt}}
						found = true
					}
				}
			}
		}
		if !found {
			t.fail(nil, "constant %s not found as an integer literal in %s", q, file)
		}
	}
	// constants
	for _, d := range t.file.Decls {
		gd, ok := d.(*ast.GenDecl)
		if !ok || gd.Tok != token.CONST {
			continue
		}
		for _, s := range gd.Specs {
			vs := s.(*ast.ValueSpec)
			for i, n := range vs.Names {
				if i < len(vs.Values) {
					if bl, ok := vs.Values[i].(*ast.BasicLit); ok && (bl.Kind == token.INT || bl.Kind == token.FLOAT) {
						c, ct := t.expr(bl, &env{vars: map[string]ty{}})
						t.consts[n.Name] = struct {
							code string
							t    ty
						}{c, ct}
					}
				}
			}
		}
	}
	if t.tg.IntLit { // the newer targets: iota and constant expressions of the file itself
		t.loadIntConsts(t.file, "")
	}
	var extraKeys []string
	for _, ex := range t.tg.Extra {
		fs := token.NewFileSet()
		ef, err := parser.ParseFile(fs, filepath.Join(repoRoot, ex.File), nil, 0)
		if err != nil {
			t.fail(nil, "extra source %s: %v", ex.File, err)
			continue
		}
		t.loadIntConsts(ef, ex.Alias)
		if ex.Alias != "" && len(ex.Funcs) == 0 { // constants only: do not leak the other package's unqualified names
			for _, d := range ef.Decls {
				if gd, ok := d.(*ast.GenDecl); ok && gd.Tok == token.CONST {
					for _, sp := range gd.Specs {
						for _, n := range sp.(*ast.ValueSpec).Names {
							if c, ok := t.consts[n.Name]; ok && c.code == t.consts[ex.Alias+"."+n.Name].code {
								delete(t.consts, n.Name)
							}
						}
					}
				}
			}
		}
		for _, d := range ef.Decls {
			fd, ok := d.(*ast.FuncDecl)
			if !ok || fd.Body == nil || fd.Recv == nil || len(fd.Recv.List) != 1 {
				continue
			}
			rt := fd.Recv.List[0].Type
			if st, ok := rt.(*ast.StarExpr); ok {
				rt = st.X
			}
			if id, ok := rt.(*ast.Ident); ok {
				key := id.Name + "." + fd.Name.Name
				for _, want := range ex.Funcs {
					if want == key {
						t.funcs[key] = fd
						t.funcFile[key] = ef
					}
				}
			}
		}
		extraKeys = append(extraKeys, ex.Funcs...)
	}
	errsBefore := t.errs
	t.errs = nil // literals the targets do not use may be unsupported: not an error
	for _, e := range errsBefore {
		if strings.Contains(e, "extra source") {
			t.errs = append(t.errs, e)
		}
	}
	// records
	var synth []string
	for name := range t.tg.SynthStructs {
		synth = append(synth, name)
	}
	sort.Strings(synth)
	for _, name := range synth { // a type of another module, by the integer fields this file reads
		sd := &structDef{name: name}
		t.structs[name] = sd
		var fs []string
		for _, f := range t.tg.SynthStructs[name] {
			sd.fields = append(sd.fields, field{f, ty{k: kInt}})
			fs = append(fs, fmt.Sprintf("%s_%s : N", name, f))
		}
		fmt.Fprintf(&o, "Record %s := mk%s { %s }.\n", name, name, strings.Join(fs, "; "))
	}
	for _, name := range t.tg.Structs {
		goName := name
		if g, ok := t.tg.StructGoName[name]; ok {
			goName = g
		}
		ts := t.typeSpec(goName)
		if file, ok := t.tg.StructsFrom[name]; ok {
			fs := token.NewFileSet()
			if sf, err := parser.ParseFile(fs, filepath.Join(repoRoot, file), nil, 0); err == nil {
				for _, d := range sf.Decls {
					if gd, ok := d.(*ast.GenDecl); ok {
						for _, sp := range gd.Specs {
							if x, ok := sp.(*ast.TypeSpec); ok && x.Name.Name == goName {
								ts = x
							}
						}
					}
				}
			}
		}
		if ts == nil {
			t.fail(nil, "struct %s not found", name)
			continue
		}
		st, ok := ts.Type.(*ast.StructType)
		if !ok {
			t.fail(ts, "%s is not a struct", name)
			continue
		}
		sd := &structDef{name: name}
		t.structs[name] = sd
		for _, fl := range st.Fields.List {
			for _, n := range fl.Names {
				if view, ok := t.tg.StructFields[name]; ok {
					keep := false
					for _, f := range view {
						if f == n.Name {
							keep = true
						}
					}
					if !keep {
						continue
					}
				}
				ft := goType(fl.Type, t.structs)
				if ft.k == kUnknown {
					t.fail(fl, "field %s.%s has an unsupported type", name, n.Name)
				}
				sd.fields = append(sd.fields, field{n.Name, ft})
			}
		}
		isExtern := false
		for _, e := range t.tg.ExternStructs {
			if e == name {
				isExtern = true
			}
		}
		if isExtern {
			continue
		}
		var fs []string
		for _, f := range sd.fields {
			fs = append(fs, fmt.Sprintf("%s_%s : %s", name, f.name, f.t.coq()))
		}
		fmt.Fprintf(&o, "Record %s := mk%s { %s }.\n", name, name, strings.Join(fs, "; "))
		for i, f := range sd.fields {
			var args []string
			for j, g := range sd.fields {
				if i == j {
					args = append(args, "v")
				} else {
					args = append(args, fmt.Sprintf("(%s_%s s)", name, g.name))
				}
			}
			fmt.Fprintf(&o, "Definition set_%s_%s (s : %s) (v : %s) : %s := mk%s %s.\n", name, f.name, name, f.t.coq(), name, name, strings.Join(args, " "))
		}
	}
	o.WriteString("\n")
	// functions
	var defs []string
	mainFile := t.file
	for _, key := range append(append([]string{}, extraKeys...), t.tg.Funcs...) {
		t.file = mainFile
		if ef, ok := t.funcFile[key]; ok {
			t.file = ef
		}
		fd := t.funcs[key]
		if fd == nil {
			t.fail(nil, "function %s not found in %s", key, t.tg.File)
			continue
		}
		recvType := ""
		if i := strings.Index(key, "."); i >= 0 {
			recvType = key[:i]
		}
		en := &env{vars: map[string]ty{}, flat: map[string]bool{}, deref: map[string]string{}}
		var params []string
		if fd.Recv != nil && len(fd.Recv.List) == 1 && len(fd.Recv.List[0].Names) == 1 {
			en.recv = fd.Recv.List[0].Names[0].Name
			if recvType == t.tg.Ctx {
				en.rctx = true
			} else if curIntTypes[recvType] {
				en.vars[en.recv] = ty{k: kInt, name: recvType}
				params = append(params, fmt.Sprintf("(%s : N)", en.recv))
			} else {
				isPtr := false
				for _, k := range t.tg.PtrRecv {
					if k == key {
						isPtr = true
					}
				}
				if isPtr {
					en.vars[en.recv] = ty{k: kOpt, sub: []ty{{k: kStruct, name: recvType}}}
					params = append(params, fmt.Sprintf("(%s : option %s)", en.recv, recvType))
					t.recvOpt[t.funcName(recvType, fd.Name.Name)] = true
				} else {
					en.vars[en.recv] = ty{k: kStruct, name: recvType}
					params = append(params, fmt.Sprintf("(%s : %s)", en.recv, recvType))
				}
			}
		}
		outSet := map[string]bool{}
		for _, p := range fd.Type.Params.List {
			pt := goType(p.Type, t.structs)
			for _, n := range p.Names {
				isOut := false
				for _, o := range t.tg.OutParams {
					if o == n.Name {
						isOut = true
					}
				}
				if st, ok := p.Type.(*ast.StarExpr); ok && isOut {
					ot := goType(st.X, t.structs)
					en.vars[n.Name] = ot
					en.outs = append(en.outs, n.Name)
					outSet[n.Name] = true
					params = append(params, fmt.Sprintf("(%s : %s)", n.Name, ot.coq()))
					continue
				}
				isDropped := false
				for _, d := range t.tg.DropParams {
					if d == n.Name {
						isDropped = true
					}
				}
				if isDropped {
					continue
				}
				if pt.k == kUnknown {
					ff, ok := flatFields[n.Name]
					if !ok {
						t.fail(p, "parameter %s has an unsupported type", n.Name)
						continue
					}
					en.flat[n.Name] = true
					var fns []string
					for f := range ff {
						fns = append(fns, f)
					}
					sort.Strings(fns)
					for _, f := range fns {
						en.vars[n.Name+"_"+f] = ff[f]
						params = append(params, fmt.Sprintf("(%s_%s : %s)", n.Name, f, ff[f].coq()))
					}
					continue
				}
				en.vars[n.Name] = pt
				params = append(params, fmt.Sprintf("(%s : %s)", n.Name, pt.coq()))
			}
		}
		var rts []ty
		prologue := ""
		if fd.Type.Results != nil {
			for _, r := range fd.Type.Results.List {
				rt := goType(r.Type, t.structs)
				n := len(r.Names)
				if n == 0 {
					n = 1
				}
				for i := 0; i < n; i++ {
					rts = append(rts, rt)
				}
				for _, nm := range r.Names { // named results start at their zero values
					en.named = append(en.named, nm.Name)
					en.vars[nm.Name] = rt
					prologue += "let " + nm.Name + " := " + zero(rt) + " in\n  "
				}
			}
		}
		for _, o := range en.outs {
			rts = append(rts, en.vars[o])
		}
		if len(outSet) > 0 {
			derefOuts(fd.Body, outSet)
		}
		en.rets = rts
		en.panicVar = "panic_" + t.funcName(recvType, fd.Name.Name)
		rt := ty{k: kTuple, sub: rts}
		if len(rts) == 1 {
			rt = rts[0]
		}
		name := t.funcName(recvType, fd.Name.Name)
		t.needFuel = false
		body := prologue + t.block(fd.Body.List, en, "", "  ")
		if t.needFuel {
			params = append([]string{"(fuel__ : nat)"}, params...)
		}
		t.rets[name] = rt
		retAnn := ""
		if !strings.Contains(rt.coq(), "_") {
			retAnn = " : " + rt.coq()
		}
		defs = append(defs, fmt.Sprintf("(* %s *)\nDefinition %s %s%s :=\n  %s.\n", key, name, strings.Join(params, " "), retAnn, body))
	}
	for _, rg := range t.tg.Regions {
		fd := t.funcs[rg.Func]
		if fd == nil {
			t.fail(nil, "function %s not found in %s", rg.Func, t.tg.File)
			continue
		}
		var loop *ast.ForStmt
		for _, st := range fd.Body.List {
			if f, ok := st.(*ast.ForStmt); ok {
				loop = f
				break
			}
		}
		if loop == nil {
			t.fail(fd, "no for statement at the top level of %s", rg.Func)
			continue
		}
		en := &env{vars: map[string]ty{}, flat: map[string]bool{}}
		var params []string
		for _, p := range rg.Params {
			en.vars[p.Name] = p.T
			params = append(params, fmt.Sprintf("(%s : %s)", p.Name, p.T.coq()))
		}
		acc := map[string]bool{}
		assigned(loop.Body.List, acc)
		var names []string
		for n := range acc {
			if _, ok := en.vars[n]; ok {
				names = append(names, n)
			}
		}
		sort.Strings(names)
		tup := strings.Join(names, ", ")
		if len(names) > 1 {
			tup = "(" + tup + ")"
		}
		t.file = mainFile
		body := t.block([]ast.Stmt{loop}, en, tup, "  ")
		defs = append(defs, fmt.Sprintf("(* the first for statement of %s, as a function of its free variables; result: %s *)\nDefinition %s %s :=\n  %s.\n",
			rg.Func, tup, rg.Name, strings.Join(params, " "), body))
	}
	t.file = mainFile
	if t.tg.Ctx != "" {
		fmt.Fprintf(&o, "Section %s.\n", t.tg.Ctx)
		for _, n := range t.ctxOrder {
			fmt.Fprintf(&o, "Variable %s : %s.\n", n, t.ctxVars[n].coq())
		}
		if len(t.panics) > 0 {
			o.WriteString("(* what a function returns when it dereferences a nil pointer (Go panics): a parameter, so that a theorem proved for\n   every value of it is a theorem about the runs that do not panic *)\n")
			for _, d := range t.panics {
				o.WriteString(d + "\n")
			}
		}
		o.WriteString("\n")
	}
	if t.tg.Ctx == "" && len(t.panics) > 0 { // functions without a context receiver: the panic parameters get a section of their own
		o.WriteString("Section Panics.\n(* what a function returns when it dereferences a nil pointer (Go panics): a parameter, so that a theorem proved for\n   every value of it is a theorem about the runs that do not panic *)\n")
		for _, d := range t.panics {
			o.WriteString(d + "\n")
		}
		o.WriteString("\n")
	}
	o.WriteString(strings.Join(defs, "\n"))
	if t.tg.Ctx == "" && len(t.panics) > 0 {
		o.WriteString("End Panics.\n")
	}
	if t.tg.Ctx != "" {
		fmt.Fprintf(&o, "End %s.\n", t.tg.Ctx)
	}
	if t.tg.Hash {
		o.WriteString("End Hash.\n")
	}
	out := o.String()
	if t.hashEq {
		out = strings.Replace(out, "(*HASHEQ*)", "Variable hash_eqb : hash -> hash -> bool.   (* == on common.Hash *)", 1)
	} else {
		out = strings.Replace(out, "(*HASHEQ*)\n", "\n", 1)
	}
	return out
}

var repoRoot = "/repo"

func main() {
	repo, outDir := "/repo", ""
	if len(os.Args) > 1 {
		repo = os.Args[1]
	}
	repoRoot = repo
	if len(os.Args) > 2 {
		outDir = os.Args[2]
	}
	rc := 0
	for _, tg := range targets {
		fset := token.NewFileSet()
		f, err := parser.ParseFile(fset, filepath.Join(repo, tg.File), nil, 0)
		if err != nil {
			fmt.Fprintf(os.Stderr, "go2coq: %v\n", err)
			rc = 1
			continue
		}
		t := &tr{tg: tg, fset: fset, file: f, structs: map[string]*structDef{}, funcs: map[string]*ast.FuncDecl{},
			consts: map[string]struct {
				code string
				t    ty
			}{}, rets: map[string]ty{}, ctxVars: map[string]ty{}, funcFile: map[string]*ast.File{}}
		t.cvals, t.recvOpt, t.externs = map[string]constant.Value{}, map[string]bool{}, map[string]bool{}
		curTypeAlias = map[string]string{}
		for k, v := range tg.TypeAlias {
			curTypeAlias[k] = v
		}
		curIntTypes = map[string]bool{}
		for _, n := range tg.IntTypes {
			curIntTypes[n] = true
		}
		for _, d := range f.Decls {
			fd, ok := d.(*ast.FuncDecl)
			if !ok || fd.Body == nil {
				continue
			}
			key := fd.Name.Name
			if fd.Recv != nil && len(fd.Recv.List) == 1 {
				rt := fd.Recv.List[0].Type
				if st, ok := rt.(*ast.StarExpr); ok {
					rt = st.X
				}
				if id, ok := rt.(*ast.Ident); ok {
					key = id.Name + "." + key
				}
			}
			t.funcs[key] = fd
		}
		src := t.run()
		if len(t.errs) > 0 {
			rc = 1
			src = "(* go2coq could not translate " + tg.File + ":\n" + strings.ReplaceAll(strings.Join(t.errs, "\n"), "*)", "* )") + " *)\n" +
				"(* no definitions are generated: the agreement proofs that import this file do not compile *)\n"
			fmt.Fprintf(os.Stderr, "go2coq: %s:\n  %s\n", tg.File, strings.Join(t.errs, "\n  "))
		}
		if outDir == "" {
			fmt.Print(src)
			continue
		}
		p := filepath.Join(outDir, tg.Out)
		old, _ := os.ReadFile(p)
		if string(old) != src {
			if err := os.WriteFile(p, []byte(src), 0o644); err != nil {
				fmt.Fprintf(os.Stderr, "go2coq: %v\n", err)
				rc = 1
			}
		}
	}
	os.Exit(rc)
}
