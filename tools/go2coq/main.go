// go2coq: translates a side-effect-free fragment of Go (unsigned integer arithmetic, float64 quotients and comparisons,
// booleans, value structs, if / return / assignment) into Gallina definitions over N / bool / Flocq binary64.
// It is run by every check (tools/vlib.py regen_facts) on /repo's CURRENT source; its output, coq/theories/Gen/Gen*.v,
// is what the agreement theorems of coq/theories/Proofs/GenAgree*.v are re-proved against.
//
// Supported statements: `x := e`, `x = e`, `a, b := f(..)`, `s.f = e`, `if c { .. } [else { .. }]`, `return ..`.
// Calls on a logger (and variables holding logger methods) are dropped: they have no effect on the results.
// uint64 / uint arithmetic wraps (Base/GoNum.v u64_add, u64_sub, u64_mul); `/` on integers is N.div.
// Anything else makes the translator fail with a message naming the construct: the generated file is then missing and
// the proofs that import it break, which the check reports.
package main

import (
	"fmt"
	"go/ast"
	"go/parser"
	"go/token"
	"os"
	"path/filepath"
	"sort"
	"strconv"
	"strings"
)

type kind int

const (
	kInt kind = iota
	kZ
	kFloat
	kBool
	kStruct
	kOpt
	kTuple
	kLog
	kUnknown
)

type ty struct {
	k    kind
	name string // struct name
	sub  []ty
}

func (t ty) coq() string {
	switch t.k {
	case kInt:
		return "N"
	case kZ:
		return "Z"
	case kFloat:
		return "f64"
	case kBool:
		return "bool"
	case kStruct:
		return t.name
	case kOpt:
		return "(option " + t.sub[0].coq() + ")"
	case kTuple:
		var p []string
		for _, s := range t.sub {
			p = append(p, s.coq())
		}
		return "(" + strings.Join(p, " * ") + ")"
	}
	return "_"
}

type field struct {
	name string
	t    ty
}
type structDef struct {
	name   string
	fields []field
}

type target struct {
	File    string   // relative to the repository root
	Out     string   // generated .v file name (in coq/theories/Gen)
	Module  string   // comment title
	Structs []string // struct types to translate into records
	Funcs   []string // functions / methods, in dependency order ("Recv.Method" or "func")
	Ctx     string   // receiver type treated as a context: selector chains rooted at it become Section variables
}

var targets = []target{
	{File: "aggsender/types/block_range.go", Out: "GenBlockRange.v", Module: "aggsender/types/block_range.go",
		Structs: []string{"BlockRange"},
		Funcs:   []string{"getBlockMinusOne", "BlockRange.CountBlocks", "BlockRange.IsEmpty", "BlockRange.Gap"}},
	{File: "aggsender/epoch_notifier_per_block.go", Out: "GenEpoch.v", Module: "aggsender/epoch_notifier_per_block.go",
		Structs: []string{"ExtraInfoEventEpoch", "internalStatus"}, Ctx: "EpochNotifierPerBlock",
		Funcs: []string{"EpochNotifierPerBlock.epochNumber", "EpochNotifierPerBlock.startingBlockEpoch",
			"EpochNotifierPerBlock.endBlockEpoch", "EpochNotifierPerBlock.percentEpoch", "EpochNotifierPerBlock.isNotificationRequired",
			"EpochNotifierPerBlock.infoEpoch", "EpochNotifierPerBlock.step"}},
}

type tr struct {
	tg       target
	fset     *token.FileSet
	file     *ast.File
	structs  map[string]*structDef
	consts   map[string]struct{ code string; t ty }
	funcs    map[string]*ast.FuncDecl // key: "Recv.Name" or "Name"
	rets     map[string]ty            // translated function name -> result type
	ctxVars  map[string]ty            // Section variables (context selectors), name -> type
	ctxOrder []string
	errs     []string
}

func (t *tr) fail(n ast.Node, format string, a ...any) {
	pos := ""
	if n != nil {
		pos = t.fset.Position(n.Pos()).String() + ": "
	}
	t.errs = append(t.errs, pos+fmt.Sprintf(format, a...))
}

func goType(e ast.Expr, structs map[string]*structDef) ty {
	switch v := e.(type) {
	case *ast.Ident:
		switch v.Name {
		case "uint64", "uint", "uint32", "uint16", "uint8":
			return ty{k: kInt}
		case "int", "int64":
			return ty{k: kZ}
		case "float64":
			return ty{k: kFloat}
		case "bool":
			return ty{k: kBool}
		}
		if _, ok := structs[v.Name]; ok {
			return ty{k: kStruct, name: v.Name}
		}
	case *ast.StarExpr:
		inner := goType(v.X, structs)
		return ty{k: kOpt, sub: []ty{inner}}
	case *ast.SelectorExpr: // pkg.Type: an external struct, used flattened
		return ty{k: kUnknown, name: v.Sel.Name}
	}
	return ty{k: kUnknown}
}

// ---------------------------------------------------------------------------------------------
// expressions
// ---------------------------------------------------------------------------------------------

type env struct {
	vars map[string]ty
	recv string // receiver identifier
	rctx bool   // receiver is the context
	flat map[string]bool
}

func (e *env) clone() *env {
	n := &env{vars: map[string]ty{}, recv: e.recv, rctx: e.rctx, flat: e.flat}
	for k, v := range e.vars {
		n.vars[k] = v
	}
	return n
}

func selChain(e ast.Expr) ([]string, bool) {
	switch v := e.(type) {
	case *ast.Ident:
		return []string{v.Name}, true
	case *ast.SelectorExpr:
		p, ok := selChain(v.X)
		if !ok {
			return nil, false
		}
		return append(p, v.Sel.Name), true
	}
	return nil, false
}

func mentionsLogger(e ast.Expr) bool {
	found := false
	ast.Inspect(e, func(n ast.Node) bool {
		if id, ok := n.(*ast.Ident); ok && (id.Name == "logger" || id.Name == "log") {
			found = true
		}
		return true
	})
	return found
}

func (t *tr) funcName(recvType, name string) string {
	if recvType == "" || recvType == t.tg.Ctx {
		return name
	}
	return recvType + "_" + name
}

func (t *tr) expr(e ast.Expr, en *env) (string, ty) {
	switch v := e.(type) {
	case *ast.ParenExpr:
		return t.expr(v.X, en)
	case *ast.BasicLit:
		switch v.Kind {
		case token.INT:
			n, err := strconv.ParseUint(v.Value, 0, 64)
			if err != nil {
				t.fail(v, "integer literal %s", v.Value)
			}
			return fmt.Sprintf("%d", n), ty{k: kInt}
		case token.FLOAT:
			f, err := strconv.ParseFloat(v.Value, 64)
			if err != nil || f != float64(uint64(f)) {
				t.fail(v, "float literal %s is not an integer value", v.Value)
			}
			return fmt.Sprintf("(f64_of_N %d)", uint64(f)), ty{k: kFloat}
		}
		t.fail(v, "literal %s", v.Value)
		return "?", ty{k: kUnknown}
	case *ast.Ident:
		switch v.Name {
		case "true", "false":
			return v.Name, ty{k: kBool}
		case "nil":
			return "None", ty{k: kOpt, sub: []ty{{k: kUnknown}}}
		}
		if c, ok := t.consts[v.Name]; ok {
			return c.code, c.t
		}
		if vt, ok := en.vars[v.Name]; ok {
			return v.Name, vt
		}
		t.fail(v, "unknown identifier %s", v.Name)
		return v.Name, ty{k: kUnknown}
	case *ast.SelectorExpr:
		chain, ok := selChain(v)
		if ok && en.rctx && chain[0] == en.recv { // context selector -> Section variable
			name := strings.Join(chain, "_")
			vt, known := t.ctxVars[name]
			if !known {
				vt = t.ctxFieldType(chain[1:])
				t.ctxVars[name] = vt
				t.ctxOrder = append(t.ctxOrder, name)
			}
			return name, vt
		}
		if ok && len(chain) == 2 && en.flat[chain[0]] { // field of an external struct parameter
			name := chain[0] + "_" + chain[1]
			if vt, ok := en.vars[name]; ok {
				return name, vt
			}
			t.fail(v, "field %s of external struct parameter %s is not declared in the target's flattening", chain[1], chain[0])
			return name, ty{k: kUnknown}
		}
		xc, xt := t.expr(v.X, en)
		if xt.k == kStruct {
			sd := t.structs[xt.name]
			for _, f := range sd.fields {
				if f.name == v.Sel.Name {
					return fmt.Sprintf("(%s_%s %s)", sd.name, f.name, xc), f.t
				}
			}
		}
		t.fail(v, "selector .%s", v.Sel.Name)
		return "?", ty{k: kUnknown}
	case *ast.UnaryExpr:
		switch v.Op {
		case token.NOT:
			c, _ := t.expr(v.X, en)
			return "(negb " + c + ")", ty{k: kBool}
		case token.AND:
			c, ct := t.expr(v.X, en)
			return "(Some " + c + ")", ty{k: kOpt, sub: []ty{ct}}
		}
		t.fail(v, "unary operator %s", v.Op)
		return "?", ty{k: kUnknown}
	case *ast.CompositeLit:
		return t.composite(v, en)
	case *ast.CallExpr:
		return t.call(v, en)
	case *ast.BinaryExpr:
		return t.binary(v, en)
	}
	t.fail(e, "expression %T", e)
	return "?", ty{k: kUnknown}
}

// type of a field path below the context receiver, from the struct declarations of the file
func (t *tr) ctxFieldType(path []string) ty {
	cur := t.tg.Ctx
	var last ty = ty{k: kUnknown}
	for _, f := range path {
		ts := t.typeSpec(cur)
		if ts == nil {
			return ty{k: kUnknown}
		}
		st, ok := ts.Type.(*ast.StructType)
		if !ok {
			return ty{k: kUnknown}
		}
		found := false
		for _, fl := range st.Fields.List {
			for _, n := range fl.Names {
				if n.Name == f {
					found = true
					last = goType(fl.Type, t.structs)
					if id, ok := fl.Type.(*ast.Ident); ok {
						cur = id.Name
					}
				}
			}
		}
		if !found {
			return ty{k: kUnknown}
		}
	}
	return last
}

func (t *tr) typeSpec(name string) *ast.TypeSpec {
	for _, d := range t.file.Decls {
		gd, ok := d.(*ast.GenDecl)
		if !ok {
			continue
		}
		for _, s := range gd.Specs {
			if ts, ok := s.(*ast.TypeSpec); ok && ts.Name.Name == name {
				return ts
			}
		}
	}
	return nil
}

func zero(t ty) string {
	switch t.k {
	case kInt:
		return "0"
	case kZ:
		return "0%Z"
	case kBool:
		return "false"
	case kOpt:
		return "None"
	}
	return "?"
}

func (t *tr) composite(v *ast.CompositeLit, en *env) (string, ty) {
	name := ""
	switch x := v.Type.(type) {
	case *ast.Ident:
		name = x.Name
	case *ast.SelectorExpr:
		name = x.Sel.Name
	}
	if sd, ok := t.structs[name]; ok {
		vals := map[string]string{}
		for _, el := range v.Elts {
			kv, ok := el.(*ast.KeyValueExpr)
			if !ok {
				t.fail(el, "positional composite literal")
				continue
			}
			c, _ := t.expr(kv.Value, en)
			vals[kv.Key.(*ast.Ident).Name] = c
		}
		var args []string
		for _, f := range sd.fields {
			if c, ok := vals[f.name]; ok {
				args = append(args, c)
			} else {
				args = append(args, zero(f.t))
			}
		}
		return "(mk" + sd.name + " " + strings.Join(args, " ") + ")", ty{k: kStruct, name: sd.name}
	}
	// external struct: the tuple of the given fields, in literal order
	var parts []string
	var sub []ty
	for _, el := range v.Elts {
		kv, ok := el.(*ast.KeyValueExpr)
		if !ok {
			t.fail(el, "positional composite literal")
			continue
		}
		c, ct := t.expr(kv.Value, en)
		parts = append(parts, c)
		sub = append(sub, ct)
	}
	return "(" + strings.Join(parts, ", ") + ")", ty{k: kTuple, sub: sub}
}

func (t *tr) call(v *ast.CallExpr, en *env) (string, ty) {
	// conversions
	if id, ok := v.Fun.(*ast.Ident); ok && len(v.Args) == 1 {
		switch id.Name {
		case "uint64", "uint":
			c, ct := t.expr(v.Args[0], en)
			if ct.k != kInt {
				t.fail(v, "conversion %s of a non-integer", id.Name)
			}
			return c, ty{k: kInt}
		case "uint32":
			c, _ := t.expr(v.Args[0], en)
			return "(u32_of " + c + ")", ty{k: kInt}
		case "int":
			c, _ := t.expr(v.Args[0], en)
			return "(go_int " + c + ")", ty{k: kZ}
		case "float64":
			c, ct := t.expr(v.Args[0], en)
			if ct.k != kInt {
				t.fail(v, "float64() of a non-integer")
			}
			return "(f64_of_N " + c + ")", ty{k: kFloat}
		}
	}
	var fname string
	var args []string
	switch f := v.Fun.(type) {
	case *ast.Ident:
		if _, ok := t.funcs[f.Name]; !ok {
			t.fail(v, "call of %s (not a translated function)", f.Name)
		}
		fname = f.Name
	case *ast.SelectorExpr:
		if id, ok := f.X.(*ast.Ident); ok && en.rctx && id.Name == en.recv {
			if _, ok := t.funcs[t.tg.Ctx+"."+f.Sel.Name]; !ok {
				t.fail(v, "call of method %s (not a translated function)", f.Sel.Name)
			}
			fname = f.Sel.Name
		} else {
			xc, xt := t.expr(f.X, en)
			if xt.k != kStruct {
				t.fail(v, "method call on a non-record")
				return "?", ty{k: kUnknown}
			}
			if _, ok := t.funcs[xt.name+"."+f.Sel.Name]; !ok {
				t.fail(v, "call of method %s.%s (not a translated function)", xt.name, f.Sel.Name)
			}
			fname = xt.name + "_" + f.Sel.Name
			args = append(args, xc)
		}
	default:
		t.fail(v, "call %T", v.Fun)
		return "?", ty{k: kUnknown}
	}
	for _, a := range v.Args {
		c, _ := t.expr(a, en)
		args = append(args, c)
	}
	rt, ok := t.rets[fname]
	if !ok {
		t.fail(v, "%s is used before it is translated (order the target's function list by dependency)", fname)
	}
	return "(" + fname + " " + strings.Join(args, " ") + ")", rt
}

func (t *tr) binary(v *ast.BinaryExpr, en *env) (string, ty) {
	a, at := t.expr(v.X, en)
	b, bt := t.expr(v.Y, en)
	k := at.k
	if k == kUnknown {
		k = bt.k
	}
	op2 := func(f string, r kind) (string, ty) { return "(" + f + " " + a + " " + b + ")", ty{k: r} }
	switch k {
	case kInt:
		switch v.Op {
		case token.ADD:
			return op2("u64_add", kInt)
		case token.SUB:
			return op2("u64_sub", kInt)
		case token.MUL:
			return op2("u64_mul", kInt)
		case token.QUO:
			return op2("u64_div", kInt)
		case token.REM:
			return op2("u64_mod", kInt)
		case token.LSS:
			return op2("N.ltb", kBool)
		case token.LEQ:
			return op2("N.leb", kBool)
		case token.GTR:
			return "(N.ltb " + b + " " + a + ")", ty{k: kBool}
		case token.GEQ:
			return "(N.leb " + b + " " + a + ")", ty{k: kBool}
		case token.EQL:
			return op2("N.eqb", kBool)
		case token.NEQ:
			return "(negb (N.eqb " + a + " " + b + "))", ty{k: kBool}
		}
	case kFloat:
		switch v.Op {
		case token.QUO:
			return op2("f64_div", kFloat)
		case token.MUL:
			return op2("f64_mul", kFloat)
		case token.LSS:
			return op2("f64_lt", kBool)
		case token.GTR:
			return "(f64_lt " + b + " " + a + ")", ty{k: kBool}
		case token.LEQ:
			return op2("f64_le", kBool)
		case token.GEQ:
			return "(f64_le " + b + " " + a + ")", ty{k: kBool}
		}
	case kBool:
		switch v.Op {
		case token.LAND:
			return op2("andb", kBool)
		case token.LOR:
			return op2("orb", kBool)
		}
	}
	t.fail(v, "operator %s on %s", v.Op, at.coq())
	return "?", ty{k: kUnknown}
}

// ---------------------------------------------------------------------------------------------
// statements
// ---------------------------------------------------------------------------------------------

func (t *tr) dropped(s ast.Stmt, en *env) bool {
	switch v := s.(type) {
	case *ast.ExprStmt:
		if c, ok := v.X.(*ast.CallExpr); ok {
			if mentionsLogger(c.Fun) {
				return true
			}
			if id, ok := c.Fun.(*ast.Ident); ok && en.vars[id.Name].k == kLog {
				return true
			}
		}
	case *ast.AssignStmt:
		if len(v.Rhs) == 1 && mentionsLogger(v.Rhs[0]) {
			if _, isCall := v.Rhs[0].(*ast.CallExpr); !isCall {
				for _, l := range v.Lhs {
					if id, ok := l.(*ast.Ident); ok {
						en.vars[id.Name] = ty{k: kLog}
					}
				}
				return true
			}
		}
	case *ast.IfStmt:
		if v.Else != nil || v.Init != nil {
			return false
		}
		for _, b := range v.Body.List {
			if !t.dropped(b, en) {
				return false
			}
		}
		return true
	}
	return false
}

func endsWithReturn(list []ast.Stmt) bool {
	if len(list) == 0 {
		return false
	}
	switch v := list[len(list)-1].(type) {
	case *ast.ReturnStmt:
		return true
	case *ast.IfStmt:
		if v.Else == nil {
			return false
		}
		eb, ok := v.Else.(*ast.BlockStmt)
		return ok && endsWithReturn(v.Body.List) && endsWithReturn(eb.List)
	}
	return false
}

// variables (and record variables through field assignment) assigned in a statement list, excluding those it declares
func assigned(list []ast.Stmt, acc map[string]bool) {
	declared := map[string]bool{}
	for _, s := range list {
		switch v := s.(type) {
		case *ast.AssignStmt:
			for _, l := range v.Lhs {
				switch x := l.(type) {
				case *ast.Ident:
					if v.Tok == token.DEFINE {
						declared[x.Name] = true
					} else if !declared[x.Name] {
						acc[x.Name] = true
					}
				case *ast.SelectorExpr:
					if id, ok := x.X.(*ast.Ident); ok && !declared[id.Name] {
						acc[id.Name] = true
					}
				}
			}
		case *ast.IfStmt:
			assigned(v.Body.List, acc)
			if eb, ok := v.Else.(*ast.BlockStmt); ok {
				assigned(eb.List, acc)
			}
		}
	}
}

// block translates a statement list; `tail` is the expression to end with when the list falls through ("" = must return)
func (t *tr) block(list []ast.Stmt, en *env, tail string, ind string) string {
	if len(list) == 0 {
		if tail == "" {
			t.fail(nil, "control reaches the end of a function body without return")
			return "?"
		}
		return tail
	}
	s, rest := list[0], list[1:]
	if t.dropped(s, en) {
		return t.block(rest, en, tail, ind)
	}
	switch v := s.(type) {
	case *ast.ReturnStmt:
		var parts []string
		for _, r := range v.Results {
			c, _ := t.expr(r, en)
			parts = append(parts, c)
		}
		if len(parts) == 1 {
			return parts[0]
		}
		return "(" + strings.Join(parts, ", ") + ")"
	case *ast.AssignStmt:
		if len(v.Rhs) != 1 {
			t.fail(v, "parallel assignment")
			return "?"
		}
		c, ct := t.expr(v.Rhs[0], en)
		if len(v.Lhs) == 1 {
			switch l := v.Lhs[0].(type) {
			case *ast.Ident:
				en.vars[l.Name] = ct
				return "let " + l.Name + " := " + c + " in\n" + ind + t.block(rest, en, tail, ind)
			case *ast.SelectorExpr:
				id, ok := l.X.(*ast.Ident)
				if !ok || en.vars[id.Name].k != kStruct {
					t.fail(v, "assignment to a field of a non-record variable")
					return "?"
				}
				sn := en.vars[id.Name].name
				return "let " + id.Name + " := set_" + sn + "_" + l.Sel.Name + " " + id.Name + " " + c + " in\n" + ind + t.block(rest, en, tail, ind)
			}
			t.fail(v, "assignment target %T", v.Lhs[0])
			return "?"
		}
		var names []string
		for i, l := range v.Lhs {
			id, ok := l.(*ast.Ident)
			if !ok {
				t.fail(v, "tuple assignment target %T", l)
				return "?"
			}
			names = append(names, id.Name)
			if ct.k == kTuple && i < len(ct.sub) {
				en.vars[id.Name] = ct.sub[i]
			}
		}
		return "let '(" + strings.Join(names, ", ") + ") := " + c + " in\n" + ind + t.block(rest, en, tail, ind)
	case *ast.IfStmt:
		if v.Init != nil {
			t.fail(v, "if with an init statement")
			return "?"
		}
		c, _ := t.expr(v.Cond, en)
		var elseList []ast.Stmt
		hasElse := false
		if v.Else != nil {
			eb, ok := v.Else.(*ast.BlockStmt)
			if !ok {
				t.fail(v, "else-if chain")
				return "?"
			}
			elseList, hasElse = eb.List, true
		}
		thenRet := endsWithReturn(v.Body.List)
		elseRet := hasElse && endsWithReturn(elseList)
		switch {
		case thenRet && (!hasElse || elseRet || true):
			// then-branch returns: the rest of the function is the else-branch followed by what comes after the if
			a := t.block(v.Body.List, en.clone(), "", ind+"  ")
			var b string
			if hasElse {
				b = t.block(append(append([]ast.Stmt{}, elseList...), rest...), en, tail, ind+"  ")
			} else {
				b = t.block(rest, en, tail, ind+"  ")
			}
			return "if " + c + " then\n" + ind + "  " + a + "\n" + ind + "else\n" + ind + "  " + b
		default:
			// no branch returns: merge the variables the branches assign
			acc := map[string]bool{}
			assigned(v.Body.List, acc)
			assigned(elseList, acc)
			var names []string
			for n := range acc {
				if _, ok := en.vars[n]; ok {
					names = append(names, n)
				}
			}
			sort.Strings(names)
			if len(names) == 0 {
				t.fail(v, "if statement without effect on the translated state")
				return "?"
			}
			tup := names[0]
			pat := names[0]
			if len(names) > 1 {
				tup = "(" + strings.Join(names, ", ") + ")"
				pat = "'" + tup
			}
			a := t.block(v.Body.List, en.clone(), tup, ind+"  ")
			b := tup
			if hasElse {
				b = t.block(elseList, en.clone(), tup, ind+"  ")
			}
			return "let " + pat + " := if " + c + " then " + a + " else " + b + " in\n" + ind + t.block(rest, en, tail, ind)
		}
	}
	t.fail(s, "statement %T", s)
	return "?"
}

// ---------------------------------------------------------------------------------------------
// one target
// ---------------------------------------------------------------------------------------------

// fields of external struct parameters that the translated functions read: parameter name -> field -> Go type
var flatFields = map[string]map[string]ty{
	"newBlock": {"BlockNumber": {k: kInt}},
}

func (t *tr) run() string {
	var o strings.Builder
	o.WriteString("(* GENERATED by /verif/tools/go2coq from " + t.tg.Module + " on every check run. Do not edit. *)\n")
	o.WriteString("From Coq Require Import ZArith NArith Bool.\nFrom Verif Require Import Base.GoNum.\nOpen Scope N_scope.\n\n")
	// constants
	for _, d := range t.file.Decls {
		gd, ok := d.(*ast.GenDecl)
		if !ok || gd.Tok != token.CONST {
			continue
		}
		for _, s := range gd.Specs {
			vs := s.(*ast.ValueSpec)
			for i, n := range vs.Names {
				if i < len(vs.Values) {
					if bl, ok := vs.Values[i].(*ast.BasicLit); ok && (bl.Kind == token.INT || bl.Kind == token.FLOAT) {
						c, ct := t.expr(bl, &env{vars: map[string]ty{}})
						t.consts[n.Name] = struct {
							code string
							t    ty
						}{c, ct}
					}
				}
			}
		}
	}
	t.errs = nil // literals the targets do not use may be unsupported: not an error
	// records
	for _, name := range t.tg.Structs {
		ts := t.typeSpec(name)
		if ts == nil {
			t.fail(nil, "struct %s not found", name)
			continue
		}
		st, ok := ts.Type.(*ast.StructType)
		if !ok {
			t.fail(ts, "%s is not a struct", name)
			continue
		}
		sd := &structDef{name: name}
		t.structs[name] = sd
		for _, fl := range st.Fields.List {
			for _, n := range fl.Names {
				ft := goType(fl.Type, t.structs)
				if ft.k == kUnknown {
					t.fail(fl, "field %s.%s has an unsupported type", name, n.Name)
				}
				sd.fields = append(sd.fields, field{n.Name, ft})
			}
		}
		var fs []string
		for _, f := range sd.fields {
			fs = append(fs, fmt.Sprintf("%s_%s : %s", name, f.name, f.t.coq()))
		}
		fmt.Fprintf(&o, "Record %s := mk%s { %s }.\n", name, name, strings.Join(fs, "; "))
		for i, f := range sd.fields {
			var args []string
			for j, g := range sd.fields {
				if i == j {
					args = append(args, "v")
				} else {
					args = append(args, fmt.Sprintf("(%s_%s s)", name, g.name))
				}
			}
			fmt.Fprintf(&o, "Definition set_%s_%s (s : %s) (v : %s) : %s := mk%s %s.\n", name, f.name, name, f.t.coq(), name, name, strings.Join(args, " "))
		}
	}
	o.WriteString("\n")
	// functions
	var defs []string
	for _, key := range t.tg.Funcs {
		fd := t.funcs[key]
		if fd == nil {
			t.fail(nil, "function %s not found in %s", key, t.tg.File)
			continue
		}
		recvType := ""
		if i := strings.Index(key, "."); i >= 0 {
			recvType = key[:i]
		}
		en := &env{vars: map[string]ty{}, flat: map[string]bool{}}
		var params []string
		if fd.Recv != nil && len(fd.Recv.List) == 1 && len(fd.Recv.List[0].Names) == 1 {
			en.recv = fd.Recv.List[0].Names[0].Name
			if recvType == t.tg.Ctx {
				en.rctx = true
			} else {
				en.vars[en.recv] = ty{k: kStruct, name: recvType}
				params = append(params, fmt.Sprintf("(%s : %s)", en.recv, recvType))
			}
		}
		for _, p := range fd.Type.Params.List {
			pt := goType(p.Type, t.structs)
			for _, n := range p.Names {
				if pt.k == kUnknown {
					ff, ok := flatFields[n.Name]
					if !ok {
						t.fail(p, "parameter %s has an unsupported type", n.Name)
						continue
					}
					en.flat[n.Name] = true
					var fns []string
					for f := range ff {
						fns = append(fns, f)
					}
					sort.Strings(fns)
					for _, f := range fns {
						en.vars[n.Name+"_"+f] = ff[f]
						params = append(params, fmt.Sprintf("(%s_%s : %s)", n.Name, f, ff[f].coq()))
					}
					continue
				}
				en.vars[n.Name] = pt
				params = append(params, fmt.Sprintf("(%s : %s)", n.Name, pt.coq()))
			}
		}
		var rts []ty
		if fd.Type.Results != nil {
			for _, r := range fd.Type.Results.List {
				rt := goType(r.Type, t.structs)
				n := len(r.Names)
				if n == 0 {
					n = 1
				}
				for i := 0; i < n; i++ {
					rts = append(rts, rt)
				}
			}
		}
		rt := ty{k: kTuple, sub: rts}
		if len(rts) == 1 {
			rt = rts[0]
		}
		name := t.funcName(recvType, fd.Name.Name)
		body := t.block(fd.Body.List, en, "", "  ")
		t.rets[name] = rt
		retAnn := ""
		if !strings.Contains(rt.coq(), "_") {
			retAnn = " : " + rt.coq()
		}
		defs = append(defs, fmt.Sprintf("(* %s *)\nDefinition %s %s%s :=\n  %s.\n", key, name, strings.Join(params, " "), retAnn, body))
	}
	if t.tg.Ctx != "" {
		fmt.Fprintf(&o, "Section %s.\n", t.tg.Ctx)
		for _, n := range t.ctxOrder {
			fmt.Fprintf(&o, "Variable %s : %s.\n", n, t.ctxVars[n].coq())
		}
		o.WriteString("\n")
	}
	o.WriteString(strings.Join(defs, "\n"))
	if t.tg.Ctx != "" {
		fmt.Fprintf(&o, "End %s.\n", t.tg.Ctx)
	}
	return o.String()
}

func main() {
	repo, outDir := "/repo", ""
	if len(os.Args) > 1 {
		repo = os.Args[1]
	}
	if len(os.Args) > 2 {
		outDir = os.Args[2]
	}
	rc := 0
	for _, tg := range targets {
		fset := token.NewFileSet()
		f, err := parser.ParseFile(fset, filepath.Join(repo, tg.File), nil, 0)
		if err != nil {
			fmt.Fprintf(os.Stderr, "go2coq: %v\n", err)
			rc = 1
			continue
		}
		t := &tr{tg: tg, fset: fset, file: f, structs: map[string]*structDef{}, funcs: map[string]*ast.FuncDecl{},
			consts: map[string]struct {
				code string
				t    ty
			}{}, rets: map[string]ty{}, ctxVars: map[string]ty{}}
		for _, d := range f.Decls {
			fd, ok := d.(*ast.FuncDecl)
			if !ok || fd.Body == nil {
				continue
			}
			key := fd.Name.Name
			if fd.Recv != nil && len(fd.Recv.List) == 1 {
				rt := fd.Recv.List[0].Type
				if st, ok := rt.(*ast.StarExpr); ok {
					rt = st.X
				}
				if id, ok := rt.(*ast.Ident); ok {
					key = id.Name + "." + key
				}
			}
			t.funcs[key] = fd
		}
		src := t.run()
		if len(t.errs) > 0 {
			rc = 1
			src = "(* go2coq could not translate " + tg.File + ":\n" + strings.ReplaceAll(strings.Join(t.errs, "\n"), "*)", "* )") + " *)\n" +
				"(* no definitions are generated: the agreement proofs that import this file do not compile *)\n"
			fmt.Fprintf(os.Stderr, "go2coq: %s:\n  %s\n", tg.File, strings.Join(t.errs, "\n  "))
		}
		if outDir == "" {
			fmt.Print(src)
			continue
		}
		p := filepath.Join(outDir, tg.Out)
		old, _ := os.ReadFile(p)
		if string(old) != src {
			if err := os.WriteFile(p, []byte(src), 0o644); err != nil {
				fmt.Fprintf(os.Stderr, "go2coq: %v\n", err)
				rc = 1
			}
		}
	}
	os.Exit(rc)
}
