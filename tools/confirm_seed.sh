#!/bin/bash
# usage: tools/confirm_seed.sh <seed dir>   -> prints a JSON line with what was confirmed
# Confirms independently: patch applies to /repo HEAD, builds, demo FAILS with the patch and PASSES without, affected packages' tests pass.
set -u
SEED=$1; NAME=$(basename "$SEED")
export PATH=/root/go/pkg/mod/golang.org/toolchain@v0.0.1-go1.24.4.linux-amd64/bin:$PATH GOFLAGS="-mod=mod ${SEED_GOFLAGS:-}" GOPROXY=off GOSUMDB=off GOTOOLCHAIN=local
WT=/tmp/wt_cf_${NAME}_$$
git -C /repo worktree add --detach "$WT" HEAD >/dev/null 2>&1 || { echo "{\"seed\":\"$NAME\",\"error\":\"worktree\"}"; exit 2; }
cd "$WT"
applies=true; git apply "$SEED/patch.diff" 2>/dev/null || applies=false
pkgs=$(git diff --name-only | xargs -n1 dirname | sort -u | sed 's|^|./|' | tr '\n' ' ')
builds=false; go build ./... >/dev/null 2>&1 && builds=true
# demo tests: copy each zz_seed_demo file into the package named in its `package` clause's directory (taken from README path hints)
demo_fail=false; demo_pass=false; demo_pkg=""
for t in "$SEED"/zz_seed_demo_*_test.go; do
  [ -f "$t" ] || continue
  hint=$(grep -o "[a-z0-9_/]*/$(basename $t)" "$SEED/README.md" | head -1)
  d=$(dirname "${hint:-x/$(basename $t)}"); [ -d "$d" ] || d=$(grep -rl "^package $(sed -n 's/^package //p' $t | head -1)$" --include=*.go . 2>/dev/null | head -1 | xargs dirname)
  cp "$t" "$d/"; demo_pkg="$demo_pkg ./$d"
done
with=$(go test -vet=off -count=1 -run 'SeedDemo|Seed' $demo_pkg 2>&1 | tail -30)
echo "$with" | grep -q "^FAIL\|--- FAIL" && demo_fail=true
rm -f $(for t in "$SEED"/zz_seed_demo_*_test.go; do [ -f "$t" ] && find . -name "$(basename $t)"; done)
# the whole existing suite with the patch applied; names of failing tests other than the three known offline/flaky ones
pkgtests=$(go test -vet=off -count=1 ./... 2>&1 | grep -E "^--- FAIL" | sed 's/--- FAIL: \([^ ]*\).*/\1/' | grep -v "^TestBridgeCallData$\|^TestClaimCalldata$\|^TestWithReorgs$" | sort -u | tr '\n' ' ')
# tests that failed in the loaded full run are re-run alone (twice): only those failing again are reported
if [ -n "$pkgtests" ]; then
  still=""
  for tname in $pkgtests; do
    ok=false
    for attempt in 1 2; do
      if go test -vet=off -count=1 -run "^${tname}\$" ./... 2>&1 | grep -q "^--- FAIL"; then :; else ok=true; break; fi
    done
    $ok || still="$still $tname"
  done
  pkgtests="$still"
fi
for t in "$SEED"/zz_seed_demo_*_test.go; do [ -f "$t" ] && for d in $demo_pkg; do cp "$t" "$d/"; done; done
git apply -R "$SEED/patch.diff" 2>/dev/null
without=$(go test -vet=off -count=1 -run 'SeedDemo|Seed' $demo_pkg 2>&1 | tail -30)
echo "$without" | grep -q "^ok" && ! echo "$without" | grep -q "^FAIL\|--- FAIL" && demo_pass=true
cd /; git -C /repo worktree remove --force "$WT"
python3 - "$NAME" "$applies" "$builds" "$demo_fail" "$demo_pass" "$pkgs" "$pkgtests" <<'PY'
import json,sys
n,a,b,f,p,pk,pt=sys.argv[1:8]
print(json.dumps(dict(seed=n,applies=a=="true",builds=b=="true",demo_fails_with_patch=f=="true",demo_passes_without=p=="true",packages=pk.split(),unexpected_failing_tests_with_patch=pt.split())))
PY
