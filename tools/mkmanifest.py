#!/usr/bin/env python3
"""Regenerates /verif/MANIFEST.json from props/*.py (claimed) and properties.jsonl (the rest -> not_applicable)."""
import importlib, json, os, sys
VERIF = os.path.dirname(os.path.dirname(os.path.abspath(__file__)))
sys.path.insert(0, os.path.join(VERIF, "tools"))
sys.path.insert(0, os.path.join(VERIF, "props"))
ids = [json.loads(l)["id"] for l in open(os.path.join(VERIF, "properties.jsonl"))]
NA_REASONS = {}
na_path = os.path.join(VERIF, "props", "not_applicable.json")
if os.path.exists(na_path):
    NA_REASONS = json.load(open(na_path))
checks, na = [], []
READY = set(open(os.path.join(VERIF, "props", "READY")).read().split())
for pid in ids:
    if pid not in READY or not os.path.exists(os.path.join(VERIF, "props", pid.lower() + ".py")):
        na.append(dict(property_id=pid, reason=NA_REASONS.get(pid, "check not built yet in this session (model and theorem planned in DESIGN.md section 4); not claimed until it runs")))
        continue
    m = importlib.import_module(pid.lower())
    checks.append(dict(
        property_id=pid,
        quick_cmd="bin/check %s --tier quick" % pid,
        thorough_cmd="bin/check %s --tier thorough" % pid,
        evidence_file="/verif/evidence/%s.json" % pid,
        replay_cmd_template="bin/check %s --replay {path}" % pid,
        engine="coq-proof+correspondence",
        level_claimed=dict(category="proof", text=m.LEVEL_TEXT, design_ref=getattr(m, "DESIGN_REF", "DESIGN.md section 4 " + pid)),
        level_note=m.LEVEL_NOTE,
        technique=getattr(m, "TECHNIQUE", "Coq 8.16 theorems over a hand-written Gallina model; model tied to the Go code by a differential correspondence check evaluated with vm_compute")))
hooks_commits = []
hp = os.path.join(VERIF, "MANIFEST.hooks")
if os.path.exists(hp):
    hooks_commits = [l.split()[0] for l in open(hp) if l.strip() and not l.startswith("#")]
man = dict(
    version=1,
    setup_cmd="bin/setup",
    hooks=dict(guard="verif (Go build tag)", enable="go build -tags verif (harness module /verif/harness with replace => /repo)",
               baseline_off_cmd="cd /repo && export PATH=/root/go/pkg/mod/golang.org/toolchain@v0.0.1-go1.24.4.linux-amd64/bin:$PATH && go test -mod=mod -json -vet=off -count=1 -timeout 25m ./...",
               source_commits=hooks_commits, add_only=True),
    engines=[dict(name="coq-proof+correspondence", path="/verif/coq, /verif/harness, /verif/tools",
                  serves_properties=[c["property_id"] for c in checks],
                  kind_free_text="Coq 8.16.1 development (theorems over Gallina models) + Go differential harness + Go-AST translator for structural facts")],
    checks=checks,
    notes="See DESIGN.md. Every check: regenerates Gen/SourceFacts.v from /repo, rebuilds the property's Coq files, rebuilds the Go harness from /repo's working tree with -tags verif, evaluates model-vs-implementation and the property predicate inside coqc.",
    not_applicable=na)
json.dump(man, open(os.path.join(VERIF, "MANIFEST.json"), "w"), indent=1)
print("claimed:", [c["property_id"] for c in checks], "not yet:", [n["property_id"] for n in na])
