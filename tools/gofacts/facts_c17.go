// C17 facts: the constants of CertificateBuildParams.EstimatedSize, as source expressions.
package main

import (
	"go/ast"
	"go/types"
)

// constExpr returns the source text of the expression defining constant `name` in file f.
func constExpr(f *ast.File, name string) (string, bool) {
	if f == nil {
		return "", false
	}
	for _, d := range f.Decls {
		gd, ok := d.(*ast.GenDecl)
		if !ok {
			continue
		}
		for _, s := range gd.Specs {
			vs, ok := s.(*ast.ValueSpec)
			if !ok {
				continue
			}
			for i, n := range vs.Names {
				if n.Name == name && i < len(vs.Values) {
					return types.ExprString(vs.Values[i]), true
				}
			}
		}
	}
	return "", false
}

func emitConstExpr(o *out, coqName, file, goName string) {
	_, f := parseFile(file)
	v, ok := constExpr(f, goName)
	if !ok {
		o.f("Definition %s : option string := None. (* %s not found in %s *)\n", coqName, goName, file)
		return
	}
	o.f("Definition %s : option string := Some \"%s\". (* %s in %s *)\n", coqName, v, goName, file)
}

func init() {
	extra = append(extra, func(o *out) {
		o.f("\n(* C17: constants of EstimatedSize *)\n")
		emitConstExpr(o, "src_kb_expr", "common/common.go", "KB")
		emitConstExpr(o, "src_estimated_aggchain_proof_size_expr", "agglayer/types/types.go", "EstimatedAggchainProofSize")
		emitConstExpr(o, "src_estimated_aggchain_signature_size_expr", "agglayer/types/types.go", "EstimatedAggchainSignatureSize")
		emitConstExpr(o, "src_estimated_bridge_exit_size_expr", "agglayer/types/types.go", "EstimatedBridgeExitSize")
		emitConstExpr(o, "src_estimated_imported_bridge_exit_size_expr", "agglayer/types/types.go", "EstimatedImportedBridgeExitSize")
		emitConst(o, "src_claim_size_factor", "aggsender/types/certificate_build_params.go", "claimSizeFactor")
	})
}
