// C11 facts: DDL of the l1infotreesync store (keys, UNIQUE, ON DELETE CASCADE), the tree root table's primary key,
// and the few source expressions the model of processor.go / processor_verifybatches.go / downloader.go transcribes
// literally (rollup tree position, leaf hash preimage, header fields copied into the event, V2 sanity check).
package main

import (
	"bytes"
	"go/ast"
	"go/printer"
	"go/token"
	"os"
	"path/filepath"
	"regexp"
	"strings"
)

func init() { extra = append(extra, factsC11) }

func c11ws(s string) string {
	return strings.TrimSpace(regexp.MustCompile(`\s+`).ReplaceAllString(s, " "))
}
func c11str(s string) string { return `"` + strings.ReplaceAll(s, `"`, `""`) + `"` }
func c11bool(b bool) string {
	if b {
		return "true"
	}
	return "false"
}

func c11Up(globs ...string) string {
	var up strings.Builder
	for _, g := range globs {
		files, _ := filepath.Glob(filepath.Join(repo, g))
		for _, p := range files {
			b, err := os.ReadFile(p)
			if err != nil {
				continue
			}
			txt := string(b)
			if i := strings.Index(txt, "+migrate Up"); i >= 0 {
				txt = txt[i+len("+migrate Up"):]
				if j := strings.Index(txt, "+migrate Down"); j >= 0 {
					txt = txt[:j]
				}
				up.WriteString(txt + "\n")
			}
		}
	}
	return up.String()
}

func c11Table(ddl, name string) string {
	re := regexp.MustCompile(`(?is)CREATE\s+TABLE\s+(IF\s+NOT\s+EXISTS\s+)?` + name + `\s*\((.*?)\)\s*;`)
	if m := re.FindStringSubmatch(ddl); m != nil {
		return strings.ToUpper(c11ws(m[2]))
	}
	return ""
}

// c11Exprs prints every expression of function `fn` in `file` accepted by `pick`, in source order.
func c11Exprs(file, fn string, pick func(ast.Node) ast.Node) []string {
	fset, f := parseFile(file)
	if f == nil {
		return nil
	}
	var res []string
	for _, d := range f.Decls {
		fd, ok := d.(*ast.FuncDecl)
		if !ok || fd.Name.Name != fn || fd.Body == nil {
			continue
		}
		ast.Inspect(fd.Body, func(n ast.Node) bool {
			if n == nil {
				return true
			}
			if e := pick(n); e != nil {
				var buf bytes.Buffer
				printer.Fprint(&buf, fset, e)
				res = append(res, c11ws(buf.String()))
			}
			return true
		})
	}
	return res
}

// value of `Field: <expr>` inside composite literals of type `typ` within fn
func c11Field(file, fn, typ, field string) []string {
	return c11Exprs(file, fn, func(n ast.Node) ast.Node {
		cl, ok := n.(*ast.CompositeLit)
		if !ok {
			return nil
		}
		var buf bytes.Buffer
		printer.Fprint(&buf, token.NewFileSet(), cl.Type)
		if !strings.HasSuffix(buf.String(), typ) {
			return nil
		}
		for _, el := range cl.Elts {
			if kv, ok := el.(*ast.KeyValueExpr); ok {
				if id, ok := kv.Key.(*ast.Ident); ok && id.Name == field {
					return kv.Value
				}
			}
		}
		return nil
	})
}

func c11List(xs []string) string {
	q := make([]string, len(xs))
	for i, x := range xs {
		q[i] = c11str(x)
	}
	return "[" + strings.Join(q, "; ") + "]"
}

func factsC11(o *out) {
	o.f("\n(* ---- C11: l1infotreesync store ---- *)\n")
	ddl := c11Up("l1infotreesync/migrations/*.sql")
	leaf, vb, ini := c11Table(ddl, "l1info_leaf"), c11Table(ddl, "verify_batches"), c11Table(ddl, "l1info_initial")
	cascade := regexp.MustCompile(`BLOCK_NUM [A-Z]+ NOT NULL REFERENCES BLOCK\(NUM\) ON DELETE CASCADE`)
	o.f("Definition src_c11_leaf_ger_unique : bool := %s. (* l1info_leaf.global_exit_root ... UNIQUE *)\n",
		c11bool(regexp.MustCompile(`GLOBAL_EXIT_ROOT [A-Z]+ NOT NULL UNIQUE`).MatchString(leaf)))
	o.f("Definition src_c11_leaf_pk_block_pos : bool := %s. (* PRIMARY KEY (block_num, block_pos) *)\n",
		c11bool(strings.Contains(leaf, "PRIMARY KEY (BLOCK_NUM, BLOCK_POS)")))
	o.f("Definition src_c11_vb_pk_block_pos : bool := %s.\n", c11bool(strings.Contains(vb, "PRIMARY KEY (BLOCK_NUM, BLOCK_POS)")))
	o.f("Definition src_c11_cascade_leaf_vb_init : bool := %s. (* all three child tables: block_num REFERENCES block(num) ON DELETE CASCADE *)\n",
		c11bool(cascade.MatchString(leaf) && cascade.MatchString(vb) && cascade.MatchString(ini)))
	o.f("Definition src_c11_init_single_row : bool := %s. (* l1info_initial: PRIMARY KEY (single_row_id) with check(single_row_id=1) *)\n",
		c11bool(strings.Contains(ini, "PRIMARY KEY (SINGLE_ROW_ID)") && strings.Contains(ini, "CHECK(SINGLE_ROW_ID=1)")))
	tree := c11Up("tree/migrations/*.sql")
	o.f("Definition src_c11_tree_root_pk_hash : bool := %s. (* <prefix>root: hash VARCHAR PRIMARY KEY (finding F4 lives here) *)\n",
		c11bool(regexp.MustCompile(`(?is)/\*dbprefix\*/root\s*\(\s*hash\s+VARCHAR\s+PRIMARY\s+KEY`).MatchString(tree)))
	// expressions
	o.f("Definition src_c11_upsert_index : list string := %s. (* processVerifyBatches: treeTypes.Leaf{Index: ...} *)\n",
		c11List(c11Field("l1infotreesync/processor_verifybatches.go", "processVerifyBatches", "Leaf", "Index")))
	o.f("Definition src_c11_leaf_index : list string := %s. (* ProcessBlock: L1InfoTreeLeaf{L1InfoTreeIndex: ...} is `index := ...` *)\n",
		c11List(c11Exprs("l1infotreesync/processor.go", "ProcessBlock", func(n ast.Node) ast.Node {
			as, ok := n.(*ast.AssignStmt)
			if ok && len(as.Lhs) == 1 && len(as.Rhs) == 1 {
				if id, ok := as.Lhs[0].(*ast.Ident); ok && id.Name == "index" {
					return as.Rhs[0]
				}
			}
			return nil
		})))
	o.f("Definition src_c11_parent_hash_rhs : list string := %s. (* downloader: UpdateL1InfoTree{ParentHash: ...} *)\n",
		c11List(c11Field("l1infotreesync/downloader.go", "buildAppender", "UpdateL1InfoTree", "ParentHash")))
	o.f("Definition src_c11_timestamp_rhs : list string := %s. (* downloader: UpdateL1InfoTree{Timestamp: ...} *)\n",
		c11List(c11Field("l1infotreesync/downloader.go", "buildAppender", "UpdateL1InfoTree", "Timestamp")))
	o.f("Definition src_c11_leaf_hash_call : list string := %s. (* L1InfoTreeLeaf.GetHash: keccak256.Hash(...) *)\n",
		c11List(c11Exprs("l1infotreesync/processor.go", "GetHash", func(n ast.Node) ast.Node {
			if ce, ok := n.(*ast.CallExpr); ok {
				if se, ok := ce.Fun.(*ast.SelectorExpr); ok && se.Sel.Name == "Hash" {
					return ce
				}
			}
			return nil
		})))
	o.f("Definition src_c11_v2_check : list string := %s. (* ProcessBlock: condition of the halting branch *)\n",
		c11List(c11Exprs("l1infotreesync/processor.go", "ProcessBlock", func(n ast.Node) ast.Node {
			is, ok := n.(*ast.IfStmt)
			if !ok {
				return nil
			}
			var buf bytes.Buffer
			printer.Fprint(&buf, token.NewFileSet(), is.Cond)
			if strings.Contains(buf.String(), "UpdateL1InfoTreeV2.CurrentL1InfoRoot") {
				return is.Cond
			}
			return nil
		})))
	o.f("Definition src_c11_zero_exit_root_skipped : list string := %s. (* processVerifyBatches: first skip condition *)\n",
		c11List(c11Exprs("l1infotreesync/processor_verifybatches.go", "processVerifyBatches", func(n ast.Node) ast.Node {
			is, ok := n.(*ast.IfStmt)
			if !ok {
				return nil
			}
			var buf bytes.Buffer
			printer.Fprint(&buf, token.NewFileSet(), is.Cond)
			if strings.Contains(buf.String(), "ExitRoot") {
				return is.Cond
			}
			return nil
		})))
}
