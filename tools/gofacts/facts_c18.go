// C18 facts: the constant the epoch notifier divides the configured percentage by.
package main

import (
	"go/ast"
	"go/types"
)

func c18ConstExpr(f *ast.File, name string) (string, bool) {
	if f == nil {
		return "", false
	}
	for _, d := range f.Decls {
		gd, ok := d.(*ast.GenDecl)
		if !ok {
			continue
		}
		for _, s := range gd.Specs {
			vs, ok := s.(*ast.ValueSpec)
			if !ok {
				continue
			}
			for i, n := range vs.Names {
				if n.Name == name && i < len(vs.Values) {
					return types.ExprString(vs.Values[i]), true
				}
			}
		}
	}
	return "", false
}

func init() {
	extra = append(extra, func(o *out) {
		const file = "aggsender/epoch_notifier_per_block.go"
		o.f("\n(* C18: epoch notifier *)\n")
		_, f := parseFile(file)
		if v, ok := c18ConstExpr(f, "maxPercent"); ok {
			o.f("Definition src_c18_max_percent_expr : option string := Some \"%s\". (* maxPercent in %s *)\n", v, file)
		} else {
			o.f("Definition src_c18_max_percent_expr : option string := None. (* maxPercent not found in %s *)\n", file)
		}
	})
}
