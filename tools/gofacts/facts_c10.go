// C10 facts: which commitment each flow hands to the signer, and that aggsender.sendCertificate sends and stores the
// very object the flow returned (no statement assigns to it in between). Syntactic only.
package main

import (
	"go/ast"
	"go/token"
	"go/types"
)

func c10Func(f *ast.File, recv, name string) *ast.FuncDecl {
	if f == nil {
		return nil
	}
	for _, d := range f.Decls {
		fd, ok := d.(*ast.FuncDecl)
		if !ok || fd.Name.Name != name || fd.Recv == nil || len(fd.Recv.List) != 1 {
			continue
		}
		t := fd.Recv.List[0].Type
		if st, ok := t.(*ast.StarExpr); ok {
			t = st.X
		}
		if id, ok := t.(*ast.Ident); ok && id.Name == recv {
			return fd
		}
	}
	return nil
}

// c10SignedHash: inside fd, `<v> := <x>.<Method>()` ... `SignHash(ctx, <v>)` ; returns Method ("" if not of that shape)
func c10SignedHash(fd *ast.FuncDecl) string {
	if fd == nil || fd.Body == nil {
		return ""
	}
	defs := map[string]string{}
	res := ""
	ast.Inspect(fd.Body, func(n ast.Node) bool {
		switch v := n.(type) {
		case *ast.AssignStmt:
			if len(v.Lhs) == 1 && len(v.Rhs) == 1 {
				if id, ok := v.Lhs[0].(*ast.Ident); ok {
					if call, ok := v.Rhs[0].(*ast.CallExpr); ok && len(call.Args) == 0 {
						if sel, ok := call.Fun.(*ast.SelectorExpr); ok {
							defs[id.Name] = sel.Sel.Name
						}
					}
				}
			}
		case *ast.CallExpr:
			if sel, ok := v.Fun.(*ast.SelectorExpr); ok && sel.Sel.Name == "SignHash" && len(v.Args) == 2 {
				if id, ok := v.Args[1].(*ast.Ident); ok {
					res = defs[id.Name]
				}
			}
		}
		return true
	})
	return res
}

// c10SendStore: in sendCertificate: v, err := a.flow.BuildCertificate(..); ..SendCertificate(ctx, v); json.Marshal(v) after it;
// no assignment to v or to a field of v anywhere in the function besides its definition.
func c10SendStore(fd *ast.FuncDecl) (ok bool, note string) {
	if fd == nil || fd.Body == nil {
		return false, "sendCertificate not found"
	}
	var name string
	var buildPos, sendPos, marshalPos token.Pos
	reassigned := false
	rootIdent := func(e ast.Expr) string {
		for {
			switch v := e.(type) {
			case *ast.SelectorExpr:
				e = v.X
			case *ast.IndexExpr:
				e = v.X
			case *ast.StarExpr:
				e = v.X
			case *ast.Ident:
				return v.Name
			default:
				return ""
			}
		}
	}
	ast.Inspect(fd.Body, func(n ast.Node) bool {
		switch v := n.(type) {
		case *ast.AssignStmt:
			if len(v.Rhs) == 1 {
				if call, ok := v.Rhs[0].(*ast.CallExpr); ok {
					if sel, ok := call.Fun.(*ast.SelectorExpr); ok && sel.Sel.Name == "BuildCertificate" && len(v.Lhs) >= 1 {
						if id, ok := v.Lhs[0].(*ast.Ident); ok && name == "" {
							name, buildPos = id.Name, v.Pos()
							return true
						}
					}
				}
			}
			for _, l := range v.Lhs {
				if name != "" && rootIdent(l) == name {
					reassigned = true
				}
			}
		case *ast.IncDecStmt:
			if name != "" && rootIdent(v.X) == name {
				reassigned = true
			}
		case *ast.CallExpr:
			sel, ok := v.Fun.(*ast.SelectorExpr)
			if !ok || len(v.Args) == 0 {
				return true
			}
			last, _ := v.Args[len(v.Args)-1].(*ast.Ident)
			if last == nil || last.Name != name {
				return true
			}
			if sel.Sel.Name == "SendCertificate" {
				sendPos = v.Pos()
			}
			if sel.Sel.Name == "Marshal" && types.ExprString(sel.X) == "json" {
				marshalPos = v.Pos()
			}
		}
		return true
	})
	switch {
	case name == "":
		return false, "no `x, err := ...BuildCertificate(...)`"
	case sendPos == token.NoPos:
		return false, "SendCertificate is not called on the built certificate"
	case marshalPos == token.NoPos:
		return false, "json.Marshal is not called on the built certificate"
	case !(buildPos < sendPos && sendPos < marshalPos):
		return false, "order is not build, send, marshal"
	case reassigned:
		return false, "the certificate variable (or a field of it) is assigned after it was built"
	}
	return true, "certificate := flow.BuildCertificate; SendCertificate(ctx, certificate); json.Marshal(certificate); never assigned in between"
}

func init() {
	extra = append(extra, func(o *out) {
		o.f("\n(* C10: which commitment is handed to the signer; what is sent is what is stored *)\n")
		_, fpp := parseFile("aggsender/flows/flow_pp.go")
		_, ffep := parseFile("aggsender/flows/flow_aggchain_prover.go")
		_, fas := parseFile("aggsender/aggsender.go")
		o.f("Definition src_c10_pp_signed_hash : string := \"%s\". (* method whose result is passed to SignHash in PPFlow.signCertificate *)\n",
			c10SignedHash(c10Func(fpp, "PPFlow", "signCertificate")))
		o.f("Definition src_c10_fep_signed_hash : string := \"%s\". (* method whose result is passed to SignHash in AggchainProverFlow.signCertificate *)\n",
			c10SignedHash(c10Func(ffep, "AggchainProverFlow", "signCertificate")))
		ok, note := c10SendStore(c10Func(fas, "AggSender", "sendCertificate"))
		b := "false"
		if ok {
			b = "true"
		}
		o.f("Definition src_c10_send_store_same_object : bool := %s. (* aggsender/aggsender.go sendCertificate: %s *)\n", b, note)
	})
}
