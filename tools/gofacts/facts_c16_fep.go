// C16 (FEP mode) facts: the syntactic details of lastgersync/evmdownloader_fep.go that the model Model/GerFep.v
// transcribes: what is stored in block.Events, what the "next index" update asserts it to be, the guard of the start
// index, the eth_call options and the SQL of getLatestL1InfoTreeIndex.
package main

import (
	"bytes"
	"go/ast"
	"go/printer"
	"go/token"
	"go/types"
	"strings"
)

// c16Src prints a node as Go source (composite literals in full).
func c16Src(n ast.Node) string {
	var b bytes.Buffer
	if err := printer.Fprint(&b, token.NewFileSet(), n); err != nil {
		return "?"
	}
	return b.String()
}

func init() { extra = append(extra, factsC16Fep) }

func c16FuncOf(f *ast.File, recv, name string) *ast.FuncDecl {
	if f == nil {
		return nil
	}
	for _, d := range f.Decls {
		fd, ok := d.(*ast.FuncDecl)
		if !ok || fd.Name.Name != name || fd.Body == nil {
			continue
		}
		if recv == "" {
			return fd
		}
		if fd.Recv != nil && len(fd.Recv.List) == 1 && strings.TrimPrefix(types.ExprString(fd.Recv.List[0].Type), "*") == recv {
			return fd
		}
	}
	return nil
}

func factsC16Fep(o *out) {
	o.f("\n(* ---- C16: lastgersync FEP downloader ---- *)\n")
	const file = "lastgersync/evmdownloader_fep.go"
	_, f := parseFile(file)
	// 1. type assertions inside Download (the update of nextL1InfoTreeIndex)
	var asserts []string
	var guards []string
	if fd := c16FuncOf(f, "downloaderFEP", "Download"); fd != nil {
		ast.Inspect(fd.Body, func(n ast.Node) bool {
			switch v := n.(type) {
			case *ast.TypeAssertExpr:
				if v.Type != nil {
					asserts = append(asserts, types.ExprString(v.X)+" AS "+types.ExprString(v.Type))
				}
			case *ast.IfStmt:
				c := types.ExprString(v.Cond)
				if strings.Contains(c, "latestL1InfoTreeIndex") {
					guards = append(guards, c)
				}
			}
			return true
		})
	}
	o.f("Definition src_c16_fep_download_type_asserts : list string := [%s]. (* type assertions inside the Download method of downloaderFEP *)\n", c16StrList(asserts))
	o.f("Definition src_c16_fep_start_index_guards : list string := [%s]. (* if-conditions on latestL1InfoTreeIndex *)\n", c16StrList(guards))
	// 2. what populateGreatestInjectedGER stores in b.Events, and the call options
	var stores []string
	var opts []string
	if fd := c16FuncOf(f, "downloaderFEP", "populateGreatestInjectedGER"); fd != nil {
		ast.Inspect(fd.Body, func(n ast.Node) bool {
			switch v := n.(type) {
			case *ast.AssignStmt:
				if len(v.Lhs) == 1 && len(v.Rhs) == 1 && strings.HasSuffix(types.ExprString(v.Lhs[0]), ".Events") {
					stores = append(stores, v.Tok.String()+" "+c16Src(v.Rhs[0]))
				}
			case *ast.CompositeLit:
				if strings.HasSuffix(types.ExprString(v.Type), "CallOpts") {
					opts = append(opts, c16Src(v))
				}
			}
			return true
		})
	}
	o.f("Definition src_c16_fep_events_stores : list string := [%s]. (* assignments to b.Events in populateGreatestInjectedGER *)\n", c16StrList(stores))
	o.f("Definition src_c16_fep_call_opts : list string := [%s].\n", c16StrList(opts))
	o.f("Definition src_c16_fep_sql_latest_index : string := %s. (* getLatestL1InfoTreeIndex *)\n",
		c16coqString(c16SQL("lastgersync/processor.go", "getLatestL1InfoTreeIndex")))
	// 3. the wait: WaitForNewBlocks is called with fromBlock itself
	var waits []string
	if fd := c16FuncOf(f, "downloaderFEP", "Download"); fd != nil {
		ast.Inspect(fd.Body, func(n ast.Node) bool {
			if as, ok := n.(*ast.AssignStmt); ok && len(as.Rhs) == 1 {
				if ce, ok := as.Rhs[0].(*ast.CallExpr); ok && strings.HasSuffix(types.ExprString(ce.Fun), "WaitForNewBlocks") {
					waits = append(waits, types.ExprString(as.Lhs[0])+" "+as.Tok.String()+" "+types.ExprString(ce))
				}
			}
			return true
		})
	}
	o.f("Definition src_c16_fep_waits : list string := [%s].\n", c16StrList(waits))
}

func c16StrList(xs []string) string {
	q := make([]string, len(xs))
	for i, x := range xs {
		q[i] = c16coqString(c16norm(x))
	}
	return strings.Join(q, "; ")
}
