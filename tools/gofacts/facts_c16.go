// C16 facts: DDL of the lastgersync store (primary keys, ON DELETE CASCADE), the SQLite DSN flag that makes the
// cascade effective, and the SQL text of the statements the model of lastgersync/processor.go transcribes.
package main

import (
	"go/ast"
	"go/token"
	"os"
	"path/filepath"
	"regexp"
	"strconv"
	"strings"
)

func init() { extra = append(extra, factsC16) }

var c16ws = regexp.MustCompile(`\s+`)

func c16norm(s string) string { return strings.TrimSpace(c16ws.ReplaceAllString(s, " ")) }

func c16coqString(s string) string { return `"` + strings.ReplaceAll(s, `"`, `""`) + `"` }

// c16Strings returns the normalised string literals found inside function `fn` (or in the top-level const/var
// declaration named `fn`) of a Go file, in source order.
func c16Strings(file, fn string) []string {
	_, f := parseFile(file)
	if f == nil {
		return nil
	}
	var res []string
	collect := func(n ast.Node) {
		ast.Inspect(n, func(x ast.Node) bool {
			if bl, ok := x.(*ast.BasicLit); ok && bl.Kind == token.STRING {
				if s, err := strconv.Unquote(bl.Value); err == nil {
					res = append(res, c16norm(s))
				}
			}
			return true
		})
	}
	for _, d := range f.Decls {
		switch v := d.(type) {
		case *ast.FuncDecl:
			if v.Name.Name == fn && v.Body != nil {
				collect(v.Body)
			}
		case *ast.GenDecl:
			for _, s := range v.Specs {
				if vs, ok := s.(*ast.ValueSpec); ok {
					for i, n := range vs.Names {
						if n.Name == fn && i < len(vs.Values) {
							collect(vs.Values[i])
						}
					}
				}
			}
		}
	}
	return res
}

// c16SQL returns the first literal of `fn` that starts with one of the SQL verbs.
func c16SQL(file, fn string) string {
	for _, s := range c16Strings(file, fn) {
		u := strings.ToUpper(s)
		if strings.HasPrefix(u, "SELECT") || strings.HasPrefix(u, "DELETE") || strings.HasPrefix(u, "INSERT") {
			return s
		}
	}
	return ""
}

func factsC16(o *out) {
	o.f("\n(* ---- C16: lastgersync store ---- *)\n")
	// all "-- +migrate Up" parts of the lastgersync migrations, concatenated in file order
	var up strings.Builder
	files, _ := filepath.Glob(filepath.Join(repo, "lastgersync", "migrations", "*.sql"))
	for _, p := range files {
		b, err := os.ReadFile(p)
		if err != nil {
			continue
		}
		txt := string(b)
		if i := strings.Index(txt, "+migrate Up"); i >= 0 {
			txt = txt[i+len("+migrate Up"):]
			if j := strings.Index(txt, "+migrate Down"); j >= 0 {
				txt = txt[:j]
			}
		} else {
			txt = ""
		}
		up.WriteString(txt)
		up.WriteString("\n")
	}
	ddl := up.String()
	table := func(name string) string {
		re := regexp.MustCompile(`(?is)CREATE\s+TABLE\s+(IF\s+NOT\s+EXISTS\s+)?` + name + `\s*\((.*?)\)\s*;`)
		m := re.FindStringSubmatch(ddl)
		if m == nil {
			return ""
		}
		return m[2]
	}
	// column definitions of a table body, split on top-level commas
	cols := func(body string) []string {
		var res []string
		depth, start := 0, 0
		for i, c := range body {
			switch c {
			case '(':
				depth++
			case ')':
				depth--
			case ',':
				if depth == 0 {
					res = append(res, c16norm(body[start:i]))
					start = i + 1
				}
			}
		}
		return append(res, c16norm(body[start:]))
	}
	pkOf := func(body string) string {
		var pk []string
		for _, c := range cols(body) {
			u := strings.ToUpper(c)
			if strings.HasPrefix(u, "PRIMARY KEY") {
				if i := strings.Index(c, "("); i >= 0 {
					if j := strings.Index(c[i:], ")"); j >= 0 {
						for _, n := range strings.Split(c[i+1:i+j], ",") {
							pk = append(pk, strings.TrimSpace(n))
						}
					}
				}
			} else if strings.Contains(u, "PRIMARY KEY") {
				pk = append(pk, strings.Fields(c)[0])
			}
		}
		return strings.Join(pk, ",")
	}
	ger := table("imported_global_exit_root")
	blk := table("block")
	cascade := false
	for _, c := range cols(ger) {
		u := strings.ToUpper(c)
		if strings.HasPrefix(u, "BLOCK_NUM ") && regexp.MustCompile(`REFERENCES\s+BLOCK\s*\(\s*NUM\s*\)\s+ON\s+DELETE\s+CASCADE`).MatchString(u) {
			cascade = true
		}
	}
	uniqueGER := false
	for _, c := range cols(ger) {
		u := strings.ToUpper(c)
		if strings.HasPrefix(u, "GLOBAL_EXIT_ROOT ") && strings.Contains(u, "UNIQUE") {
			uniqueGER = true
		}
	}
	o.f("Definition src_c16_block_pk : string := %s. (* PRIMARY KEY of table block, lastgersync/migrations *)\n", c16coqString(pkOf(blk)))
	o.f("Definition src_c16_imported_ger_pk : string := %s. (* PRIMARY KEY of imported_global_exit_root *)\n", c16coqString(pkOf(ger)))
	o.f("Definition src_c16_imported_ger_cascade : bool := %v. (* block_num REFERENCES block(num) ON DELETE CASCADE *)\n", cascade)
	o.f("Definition src_c16_imported_ger_unique_ger : bool := %v. (* UNIQUE on global_exit_root *)\n", uniqueGER)
	dsn := false
	if b, err := os.ReadFile(filepath.Join(repo, "db", "sqlite.go")); err == nil {
		dsn = strings.Contains(string(b), "_foreign_keys=on")
	}
	o.f("Definition src_c16_dsn_foreign_keys_on : bool := %v. (* db/sqlite.go NewSQLiteDB DSN *)\n", dsn)
	const pf = "lastgersync/processor.go"
	o.f("Definition src_c16_sql_first_ger : string := %s. (* GetFirstGERAfterL1InfoTreeIndex *)\n", c16coqString(c16SQL(pf, "GetFirstGERAfterL1InfoTreeIndex")))
	o.f("Definition src_c16_sql_delete_ger : string := %s. (* deleteGERSql *)\n", c16coqString(c16SQL(pf, "deleteGERSql")))
	o.f("Definition src_c16_sql_reorg : string := %s. (* Reorg *)\n", c16coqString(c16SQL(pf, "Reorg")))
	o.f("Definition src_c16_sql_last_block : string := %s. (* GetLastProcessedBlock *)\n", c16coqString(c16SQL(pf, "GetLastProcessedBlock")))
	o.f("Definition src_c16_sql_insert_block : string := %s. (* ProcessBlock *)\n", c16coqString(c16SQL(pf, "ProcessBlock")))
}
