package main

import (
	"go/ast"
	"go/types"
	"strings"
)

// C02: the pending gate of the send loop. For every call of a.sendCertificate inside AggSender.sendCertificates: the conditions
// of the enclosing `if`s (outermost first), and whether the checkResult they test was obtained from
// CheckPendingCertificatesStatus in the same `case` clause, before the test, with no other assignment in between.
func c02SendGates(fn *ast.FuncDecl) (gates [][]string, fresh bool) {
	fresh = true
	if fn == nil {
		return nil, false
	}
	var walk func(n ast.Node, conds []string, clause *ast.CommClause)
	walkList := func(l []ast.Stmt, conds []string, clause *ast.CommClause) {
		for _, s := range l {
			walk(s, conds, clause)
		}
	}
	walk = func(n ast.Node, conds []string, clause *ast.CommClause) {
		switch v := n.(type) {
		case nil:
		case *ast.BlockStmt:
			walkList(v.List, conds, clause)
		case *ast.ForStmt:
			walk(v.Body, conds, clause)
		case *ast.SelectStmt:
			walk(v.Body, conds, clause)
		case *ast.CommClause:
			walkList(v.Body, conds, v)
		case *ast.IfStmt:
			c := strings.Join(strings.Fields(types.ExprString(v.Cond)), " ")
			walk(v.Body, append(append([]string{}, conds...), c), clause)
			if v.Else != nil {
				walk(v.Else, append(append([]string{}, conds...), "!("+c+")"), clause)
			}
		default:
			ast.Inspect(n, func(m ast.Node) bool {
				call, ok := m.(*ast.CallExpr)
				if !ok {
					return true
				}
				if sel, ok := call.Fun.(*ast.SelectorExpr); ok && sel.Sel.Name == "sendCertificate" {
					gates = append(gates, append([]string{}, conds...))
					if !c02Fresh(clause, call) {
						fresh = false
					}
				}
				return true
			})
		}
	}
	walk(fn.Body, nil, nil)
	return gates, fresh && len(gates) > 0
}

// in the clause, the last assignment to checkResult before the call is `checkResult := <x>.CheckPendingCertificatesStatus(ctx)`
func c02Fresh(clause *ast.CommClause, call *ast.CallExpr) bool {
	if clause == nil {
		return false
	}
	last := ""
	ast.Inspect(clause, func(m ast.Node) bool {
		as, ok := m.(*ast.AssignStmt)
		if !ok || as.Pos() >= call.Pos() {
			return true
		}
		for i, l := range as.Lhs {
			if id, ok := l.(*ast.Ident); ok && id.Name == "checkResult" && i < len(as.Rhs) {
				last = types.ExprString(as.Rhs[i])
			}
		}
		return true
	})
	return strings.HasSuffix(last, ".CheckPendingCertificatesStatus(ctx)")
}

func init() {
	extra = append(extra, func(o *out) {
		o.f("\n(* C02: the pending gate of the send loop *)\n")
		_, fas := parseFile("aggsender/aggsender.go")
		gates, fresh := c02SendGates(c10Func(fas, "AggSender", "sendCertificates"))
		var gs []string
		for _, g := range gates {
			var cs []string
			for _, c := range g {
				cs = append(cs, "\""+strings.ReplaceAll(c, "\"", "'")+"\"")
			}
			gs = append(gs, "["+strings.Join(cs, "; ")+"]")
		}
		o.f("Definition src_c02_send_gates : list (list string) := [%s]. (* aggsender/aggsender.go sendCertificates: per call of a.sendCertificate, the conditions of the enclosing ifs, outermost first *)\n",
			strings.Join(gs, "; "))
		b := "false"
		if fresh {
			b = "true"
		}
		o.f("Definition src_c02_gate_is_fresh : bool := %s. (* every such call: the checkResult tested was assigned from CheckPendingCertificatesStatus(ctx) in the same case clause, last before the call *)\n", b)
	})
}
