// C14 facts: shapes of the facade methods of *BridgeSync / *L1InfoTreeSync (halted guard, data access) and of the
// halting / un-halting code (ProcessBlock, Reorg, sync.UnhaltIfAffectedRows, EVMDriver.handleNewBlock).
// Everything is syntactic (go/parser); anything not recognised is reported conservatively
// (guarded=false, touches_data=true, operator "?").
package main

import (
	"bytes"
	"go/ast"
	"go/parser"
	"go/printer"
	"go/token"
	"os"
	"path/filepath"
	"sort"
	"strconv"
	"strings"
)

func init() { extra = append(extra, factsC14) }

const c14SyncImport = "github.com/agglayer/aggkit/sync"

// fields of the facade structs that are plain configuration / collaborators, not stored syncer data
var c14ConfigFields = map[string]bool{"originNetwork": true, "blockFinality": true}

type c14File struct {
	name     string // file name relative to the package dir
	fset     *token.FileSet
	f        *ast.File
	hook     bool   // carries a //go:build constraint mentioning the tag `verif`
	syncName string // local name of the aggkit/sync import ("" if not imported)
}

type c14Method struct {
	recv, name       string
	guarded, touches bool
	file, note       string
}

func c14q(s string) string { return `"` + strings.ReplaceAll(s, `"`, `""`) + `"` }

func c14bool(b bool) string {
	if b {
		return "true"
	}
	return "false"
}

func c14print(fset *token.FileSet, n ast.Node) string {
	if n == nil {
		return ""
	}
	var buf bytes.Buffer
	if err := printer.Fprint(&buf, fset, n); err != nil {
		return "?"
	}
	return strings.Join(strings.Fields(buf.String()), " ")
}

func c14strList(xs []string) string {
	q := make([]string, len(xs))
	for i, x := range xs {
		q[i] = c14q(x)
	}
	return "[" + strings.Join(q, "; ") + "]"
}

// c14ParsePkg parses every non-test .go file of a package directory (sorted by name).
func c14ParsePkg(dir string) []*c14File {
	names, _ := filepath.Glob(filepath.Join(repo, dir, "*.go"))
	sort.Strings(names)
	var res []*c14File
	for _, p := range names {
		if strings.HasSuffix(p, "_test.go") {
			continue
		}
		fset := token.NewFileSet()
		f, err := parser.ParseFile(fset, p, nil, parser.ParseComments)
		if err != nil {
			os.Stderr.WriteString("gofacts(c14): cannot parse " + p + ": " + err.Error() + "\n")
			continue
		}
		cf := &c14File{name: filepath.Base(p), fset: fset, f: f}
		for _, cg := range f.Comments {
			if cg.Pos() > f.Package {
				break
			}
			for _, c := range cg.List {
				t := strings.TrimSpace(c.Text)
				if (strings.HasPrefix(t, "//go:build") || strings.HasPrefix(t, "// +build")) && strings.Contains(t, "verif") {
					cf.hook = true
				}
			}
		}
		for _, im := range f.Imports {
			path, _ := strconv.Unquote(im.Path.Value)
			if path == c14SyncImport {
				cf.syncName = "sync"
				if im.Name != nil {
					cf.syncName = im.Name.Name
				}
			}
		}
		res = append(res, cf)
	}
	return res
}

// recvOf returns (receiver variable name, receiver type name) of a method declaration.
func c14RecvOf(fd *ast.FuncDecl) (string, string) {
	if fd.Recv == nil || len(fd.Recv.List) != 1 {
		return "", ""
	}
	fl := fd.Recv.List[0]
	t := fl.Type
	if st, ok := t.(*ast.StarExpr); ok {
		t = st.X
	}
	id, ok := t.(*ast.Ident)
	if !ok {
		return "", ""
	}
	name := ""
	if len(fl.Names) == 1 {
		name = fl.Names[0].Name
	}
	return name, id.Name
}

func c14IsSel(e ast.Expr, x, sel string) bool {
	s, ok := e.(*ast.SelectorExpr)
	if !ok || s.Sel.Name != sel {
		return false
	}
	id, ok := s.X.(*ast.Ident)
	return ok && id.Name == x
}

// c14IsHaltedCall recognises `<path>.isHalted()` where path is the identifier chain given (e.g. s.processor or p).
func c14IsHaltedCall(e ast.Expr, path []string) bool {
	c, ok := e.(*ast.CallExpr)
	if !ok || len(c.Args) != 0 {
		return false
	}
	s, ok := c.Fun.(*ast.SelectorExpr)
	if !ok || s.Sel.Name != "isHalted" {
		return false
	}
	return c14IsPath(s.X, path)
}

func c14IsPath(e ast.Expr, path []string) bool {
	if len(path) == 1 {
		id, ok := e.(*ast.Ident)
		return ok && id.Name == path[0]
	}
	s, ok := e.(*ast.SelectorExpr)
	if !ok || s.Sel.Name != path[len(path)-1] {
		return false
	}
	return c14IsPath(s.X, path[:len(path)-1])
}

// c14IsLogCall recognises an expression statement `<path>.log.<M>(...)`.
func c14IsLogCall(st ast.Stmt, path []string) bool {
	es, ok := st.(*ast.ExprStmt)
	if !ok {
		return false
	}
	c, ok := es.X.(*ast.CallExpr)
	if !ok {
		return false
	}
	s, ok := c.Fun.(*ast.SelectorExpr)
	if !ok {
		return false
	}
	return c14IsPath(s.X, append(append([]string{}, path...), "log"))
}

// c14IsGuard: `if <path>.isHalted() { [<path>.log.X(...)]* ; return ..., <sync>.ErrInconsistentState }`
// (no init statement, no else branch, the error is the LAST returned value).
func c14IsGuard(st ast.Stmt, path []string, syncName string) bool {
	is, ok := st.(*ast.IfStmt)
	if !ok || is.Init != nil || is.Else != nil || syncName == "" {
		return false
	}
	if !c14IsHaltedCall(is.Cond, path) {
		return false
	}
	n := len(is.Body.List)
	if n == 0 {
		return false
	}
	for _, s := range is.Body.List[:n-1] {
		if !c14IsLogCall(s, path) {
			return false
		}
	}
	rs, ok := is.Body.List[n-1].(*ast.ReturnStmt)
	if !ok || len(rs.Results) == 0 {
		return false
	}
	return c14IsSel(rs.Results[len(rs.Results)-1], syncName, "ErrInconsistentState")
}

func c14LastResultIsError(fd *ast.FuncDecl) bool {
	if fd.Type.Results == nil || len(fd.Type.Results.List) == 0 {
		return false
	}
	last := fd.Type.Results.List[len(fd.Type.Results.List)-1]
	id, ok := last.Type.(*ast.Ident)
	return ok && id.Name == "error"
}

// c14Touches: does the body (minus the recognised guard) use the receiver for anything but
//
//	recv.processor.log.<M>(...)   logging
//	recv.driver.Sync(...)         starting the driver
//	recv.reorgDetector...         the reorg detector (a collaborator, not stored syncer data)
//	recv.<config field>           plain configuration (c14ConfigFields)
//
// Conservative: every other use of the receiver (any other field, passing it on, ...) counts as touching data.
func c14Touches(fd *ast.FuncDecl, recv string, skipFirst bool) (bool, string) {
	if recv == "" || recv == "_" {
		return true, "receiver unnamed"
	}
	stmts := fd.Body.List
	if skipFirst && len(stmts) > 0 {
		stmts = stmts[1:]
	}
	touches := false
	why := ""
	var stack []ast.Node
	visit := func(n ast.Node) bool {
		if n == nil {
			stack = stack[:len(stack)-1]
			return true
		}
		stack = append(stack, n)
		id, ok := n.(*ast.Ident)
		if !ok || id.Name != recv {
			return true
		}
		// parent chain
		par := func(k int) ast.Node {
			if len(stack)-1-k < 0 {
				return nil
			}
			return stack[len(stack)-1-k]
		}
		p1, ok := par(1).(*ast.SelectorExpr)
		if !ok || p1.X != ast.Expr(id) {
			if ok && p1.Sel == id { // a field/method NAMED like the receiver, not the receiver itself
				return true
			}
			touches, why = true, "receiver used as a value"
			return true
		}
		switch f := p1.Sel.Name; {
		case c14ConfigFields[f]:
		case f == "reorgDetector":
		case f == "driver":
			p2, ok := par(2).(*ast.SelectorExpr)
			if !ok || p2.X != ast.Expr(p1) || p2.Sel.Name != "Sync" {
				touches, why = true, recv+".driver used for something else than Sync"
			}
		case f == "processor":
			p2, ok := par(2).(*ast.SelectorExpr)
			if !ok || p2.X != ast.Expr(p1) || p2.Sel.Name != "log" {
				touches, why = true, recv+".processor"
			}
		default:
			touches, why = true, recv+"."+f
		}
		return true
	}
	for _, s := range stmts {
		ast.Inspect(s, visit)
	}
	return touches, why
}

func c14FacadeMethods(files []*c14File, typeName string) (prod []c14Method, hooks []c14Method) {
	for _, cf := range files {
		for _, d := range cf.f.Decls {
			fd, ok := d.(*ast.FuncDecl)
			if !ok || fd.Body == nil {
				continue
			}
			recv, tn := c14RecvOf(fd)
			if tn != typeName || !ast.IsExported(fd.Name.Name) {
				continue
			}
			m := c14Method{recv: typeName, name: fd.Name.Name, file: cf.name}
			if len(fd.Body.List) > 0 && recv != "" && c14LastResultIsError(fd) {
				m.guarded = c14IsGuard(fd.Body.List[0], []string{recv, "processor"}, cf.syncName)
			}
			m.touches, m.note = c14Touches(fd, recv, m.guarded)
			if cf.hook {
				hooks = append(hooks, m)
			} else {
				prod = append(prod, m)
			}
		}
	}
	return
}

// c14FindFunc finds a function / method by name (receiver type name "" = plain function).
func c14FindFunc(files []*c14File, recvType, name string) (*c14File, *ast.FuncDecl) {
	for _, cf := range files {
		if cf.hook {
			continue
		}
		for _, d := range cf.f.Decls {
			fd, ok := d.(*ast.FuncDecl)
			if !ok || fd.Body == nil || fd.Name.Name != name {
				continue
			}
			_, tn := c14RecvOf(fd)
			if tn == recvType {
				return cf, fd
			}
		}
	}
	return nil, nil
}

// halted assignments `<x>.halted = true|false` anywhere in the package, with the innermost enclosing if-condition.
func c14HaltSites(files []*c14File) []string {
	var res []string
	for _, cf := range files {
		if cf.hook {
			continue
		}
		for _, d := range cf.f.Decls {
			fd, ok := d.(*ast.FuncDecl)
			if !ok || fd.Body == nil {
				continue
			}
			var stack []ast.Node
			ast.Inspect(fd.Body, func(n ast.Node) bool {
				if n == nil {
					stack = stack[:len(stack)-1]
					return true
				}
				stack = append(stack, n)
				as, ok := n.(*ast.AssignStmt)
				if !ok {
					return true
				}
				for i, l := range as.Lhs {
					s, ok := l.(*ast.SelectorExpr)
					if !ok || s.Sel.Name != "halted" || i >= len(as.Rhs) {
						continue
					}
					cond := ""
					for k := len(stack) - 2; k >= 0; k-- {
						if is, ok := stack[k].(*ast.IfStmt); ok {
							// only when we are inside the `then` block of that if
							if k+1 < len(stack) && stack[k+1] == ast.Node(is.Body) {
								cond = c14print(cf.fset, is.Cond)
								break
							}
						}
					}
					res = append(res, "("+c14q(fd.Name.Name)+", "+c14q(cond)+", "+c14q(c14print(cf.fset, as.Rhs[i]))+")")
				}
				return true
			})
		}
	}
	sort.Strings(res)
	return res
}

// facts about processor.Reorg: which statement deletes the block rows, where the row count comes from,
// and how sync.UnhaltIfAffectedRows is called.
func c14ReorgFacts(o *out, files []*c14File, prefix string) {
	cf, fd := c14FindFunc(files, "processor", "Reorg")
	call, rowsSrc, resSrc := "", "", ""
	toplevel := false
	if fd != nil {
		rowsVar := ""
		for _, st := range fd.Body.List {
			if es, ok := st.(*ast.ExprStmt); ok {
				if c, ok := es.X.(*ast.CallExpr); ok {
					if s, ok := c.Fun.(*ast.SelectorExpr); ok && s.Sel.Name == "UnhaltIfAffectedRows" {
						toplevel = true
					}
				}
			}
		}
		ast.Inspect(fd.Body, func(n ast.Node) bool {
			c, ok := n.(*ast.CallExpr)
			if !ok {
				return true
			}
			if s, ok := c.Fun.(*ast.SelectorExpr); ok && s.Sel.Name == "UnhaltIfAffectedRows" && call == "" {
				call = c14print(cf.fset, c)
				if len(c.Args) == 4 {
					if id, ok := c.Args[3].(*ast.Ident); ok {
						rowsVar = id.Name
					}
				}
			}
			return true
		})
		resVar := ""
		ast.Inspect(fd.Body, func(n ast.Node) bool {
			as, ok := n.(*ast.AssignStmt)
			if !ok || len(as.Lhs) == 0 || len(as.Rhs) != 1 {
				return true
			}
			id, ok := as.Lhs[0].(*ast.Ident)
			if !ok || rowsVar == "" || id.Name != rowsVar || rowsSrc != "" {
				return true
			}
			rowsSrc = c14print(cf.fset, as.Rhs[0])
			if c, ok := as.Rhs[0].(*ast.CallExpr); ok {
				if s, ok := c.Fun.(*ast.SelectorExpr); ok {
					if x, ok := s.X.(*ast.Ident); ok {
						resVar = x.Name
					}
				}
			}
			return true
		})
		ast.Inspect(fd.Body, func(n ast.Node) bool {
			as, ok := n.(*ast.AssignStmt)
			if !ok || len(as.Lhs) == 0 || len(as.Rhs) != 1 {
				return true
			}
			id, ok := as.Lhs[0].(*ast.Ident)
			if !ok || resVar == "" || id.Name != resVar || resSrc != "" {
				return true
			}
			resSrc = c14print(cf.fset, as.Rhs[0])
			return true
		})
	}
	// order of the key statements of Reorg (top-level statements, defers skipped)
	var order []string
	commitIdx, unhaltIdx := -1, -1
	if fd != nil {
		for _, st := range fd.Body.List {
			if _, ok := st.(*ast.DeferStmt); ok {
				continue
			}
			kind := ""
			ast.Inspect(st, func(n ast.Node) bool {
				c, ok := n.(*ast.CallExpr)
				if !ok {
					return true
				}
				s, ok := c.Fun.(*ast.SelectorExpr)
				if !ok {
					return true
				}
				switch s.Sel.Name {
				case "Exec":
					if len(c.Args) > 0 {
						if bl, ok := c.Args[0].(*ast.BasicLit); ok && strings.Contains(bl.Value, "DELETE FROM block") {
							kind = "delete_blocks"
						}
					}
				case "RowsAffected":
					kind = "rows_affected"
				case "Reorg":
					kind = "tree_reorg"
				case "Commit":
					kind = "commit"
				case "UnhaltIfAffectedRows":
					kind = "unhalt"
				}
				return true
			})
			if kind != "" {
				if kind == "commit" && commitIdx < 0 {
					commitIdx = len(order)
				}
				if kind == "unhalt" && unhaltIdx < 0 {
					unhaltIdx = len(order)
				}
				order = append(order, kind)
			}
		}
	}
	o.f("Definition %s_reorg_statement_order : list string := %s.\n", prefix, c14strList(order))
	o.f("Definition %s_reorg_unhalt_after_commit : bool := %s. (* UnhaltIfAffectedRows is called only after tx.Commit() succeeded *)\n",
		prefix, c14bool(commitIdx >= 0 && unhaltIdx > commitIdx))
	o.f("Definition %s_reorg_unhalt_call : string := %s.\n", prefix, c14q(call))
	o.f("Definition %s_reorg_unhalt_call_unconditional : bool := %s. (* a top-level statement of Reorg *)\n", prefix, c14bool(toplevel))
	o.f("Definition %s_reorg_rows_source : string := %s.\n", prefix, c14q(rowsSrc))
	o.f("Definition %s_reorg_delete_stmt : string := %s.\n", prefix, c14q(resSrc))
}

func c14ProcessorFacts(o *out, files []*c14File, prefix string) {
	// ProcessBlock starts with the halted guard
	cf, fd := c14FindFunc(files, "processor", "ProcessBlock")
	g := false
	if fd != nil && len(fd.Body.List) > 0 {
		recv, _ := c14RecvOf(fd)
		g = recv != "" && c14IsGuard(fd.Body.List[0], []string{recv}, cf.syncName)
	}
	o.f("Definition %s_processblock_guarded : bool := %s. (* first statement: if p.isHalted() { log; return sync.ErrInconsistentState } *)\n", prefix, c14bool(g))
	// isHalted returns the flag
	cf, fd = c14FindFunc(files, "processor", "isHalted")
	r := false
	if fd != nil && len(fd.Body.List) > 0 {
		recv, _ := c14RecvOf(fd)
		if rs, ok := fd.Body.List[len(fd.Body.List)-1].(*ast.ReturnStmt); ok && len(rs.Results) == 1 {
			r = recv != "" && c14IsSel(rs.Results[0], recv, "halted")
		}
	}
	_ = cf
	o.f("Definition %s_ishalted_returns_flag : bool := %s.\n", prefix, c14bool(r))
	o.f("(* every assignment to a field `halted` in the package: (function, innermost enclosing if-condition, value) *)\n")
	o.f("Definition %s_halted_assignments : list (string * string * string) := [%s].\n", prefix, strings.Join(c14HaltSites(files), "; "))
	c14ReorgFacts(o, files, prefix)
}

func factsC14(o *out) {
	o.f("\n(* ---- C14: facade methods of the bridge / L1 info tree syncers and the halting code ---- *)\n")
	o.f("(* (receiver type, method, guarded, touches_data) for EVERY exported method declared in a non-test file of the package.\n")
	o.f("   guarded      = the first statement is `if s.processor.isHalted() { [s.processor.log.X(..)]* return ..., sync.ErrInconsistentState }`\n")
	o.f("   touches_data = the rest of the body uses the receiver for anything but s.processor.log.*, s.driver.Sync, s.reorgDetector.*,\n")
	o.f("                  s.originNetwork, s.blockFinality (conservative: anything else counts) *)\n")
	var all, hooks []c14Method
	pkgs := []struct{ dir, typ, prefix string }{
		{"bridgesync", "BridgeSync", "src_bridge"},
		{"l1infotreesync", "L1InfoTreeSync", "src_l1info"},
	}
	parsed := map[string][]*c14File{}
	for _, p := range pkgs {
		parsed[p.dir] = c14ParsePkg(p.dir)
		pm, hm := c14FacadeMethods(parsed[p.dir], p.typ)
		all = append(all, pm...)
		hooks = append(hooks, hm...)
	}
	less := func(xs []c14Method) func(i, j int) bool {
		return func(i, j int) bool {
			if xs[i].recv != xs[j].recv {
				return xs[i].recv < xs[j].recv
			}
			return xs[i].name < xs[j].name
		}
	}
	sort.SliceStable(all, less(all))
	sort.SliceStable(hooks, less(hooks))
	o.f("Definition facade_methods : list (string * string * bool * bool) := [\n")
	for i, m := range all {
		sep := ";"
		if i == len(all)-1 {
			sep = ""
		}
		note := m.file
		if m.note != "" {
			note += ": " + m.note
		}
		o.f("  (%s, %s, %s, %s)%s (* %s *)\n", c14q(m.recv), c14q(m.name), c14bool(m.guarded), c14bool(m.touches), sep,
			strings.ReplaceAll(note, "*)", "* )"))
	}
	o.f("].\n")
	o.f("(* exported methods declared in files constrained by the build tag `verif` (test hooks, not part of the product) *)\n")
	hs := []string{}
	for _, m := range hooks {
		hs = append(hs, "("+c14q(m.recv)+", "+c14q(m.name)+")")
	}
	o.f("Definition facade_hook_methods : list (string * string) := [%s].\n", strings.Join(hs, "; "))

	// sync.UnhaltIfAffectedRows
	sfiles := c14ParsePkg("sync")
	cf, fd := c14FindFunc(sfiles, "", "UnhaltIfAffectedRows")
	op, lhsIsRows, clears := "?", false, false
	konst := "None"
	if fd != nil {
		var params []string
		for _, fl := range fd.Type.Params.List {
			for _, n := range fl.Names {
				params = append(params, n.Name)
			}
		}
		if len(params) == 4 && len(fd.Body.List) == 1 {
			if is, ok := fd.Body.List[0].(*ast.IfStmt); ok && is.Init == nil && is.Else == nil {
				if be, ok := is.Cond.(*ast.BinaryExpr); ok {
					op = be.Op.String()
					if id, ok := be.X.(*ast.Ident); ok && id.Name == params[3] {
						lhsIsRows = true
					}
					if bl, ok := be.Y.(*ast.BasicLit); ok && bl.Kind == token.INT {
						if v, err := strconv.ParseUint(bl.Value, 0, 64); err == nil {
							konst = "Some " + strconv.FormatUint(v, 10) + "%N"
						}
					}
				}
				for _, st := range is.Body.List {
					if as, ok := st.(*ast.AssignStmt); ok && len(as.Lhs) == 1 && len(as.Rhs) == 1 {
						if se, ok := as.Lhs[0].(*ast.StarExpr); ok {
							if id, ok := se.X.(*ast.Ident); ok && id.Name == params[0] {
								if v, ok := as.Rhs[0].(*ast.Ident); ok && v.Name == "false" {
									clears = true
								}
							}
						}
					}
				}
			}
		}
	}
	_ = cf
	o.f("(* sync.UnhaltIfAffectedRows(halted, haltedReason, mu, rowsAffected): `if rowsAffected <op> <const> { *halted = false ... }` *)\n")
	o.f("Definition src_unhalt_cmp : string := %s.\n", c14q(op))
	o.f("Definition src_unhalt_const : option N := %s.\n", konst)
	o.f("Definition src_unhalt_lhs_is_rows_param : bool := %s.\n", c14bool(lhsIsRows))
	o.f("Definition src_unhalt_clears_flag : bool := %s.\n", c14bool(clears))

	// sync.ErrInconsistentState and what the driver does with it
	declared := false
	for _, sf := range sfiles {
		for _, d := range sf.f.Decls {
			gd, ok := d.(*ast.GenDecl)
			if !ok || gd.Tok != token.VAR {
				continue
			}
			for _, s := range gd.Specs {
				vs := s.(*ast.ValueSpec)
				for _, n := range vs.Names {
					if n.Name == "ErrInconsistentState" {
						declared = true
					}
				}
			}
		}
	}
	o.f("Definition src_err_inconsistent_declared : bool := %s. (* var ErrInconsistentState in package sync *)\n", c14bool(declared))
	stops := false
	if _, hd := c14FindFunc(sfiles, "EVMDriver", "handleNewBlock"); hd != nil {
		ast.Inspect(hd.Body, func(n ast.Node) bool {
			is, ok := n.(*ast.IfStmt)
			if !ok {
				return true
			}
			c, ok := is.Cond.(*ast.CallExpr)
			if !ok || !c14IsSel(c.Fun, "errors", "Is") || len(c.Args) != 2 {
				return true
			}
			if id, ok := c.Args[1].(*ast.Ident); !ok || id.Name != "ErrInconsistentState" {
				return true
			}
			hasCancel, retries := false, false
			for _, st := range is.Body.List {
				ast.Inspect(st, func(m ast.Node) bool {
					if cc, ok := m.(*ast.CallExpr); ok {
						if id, ok := cc.Fun.(*ast.Ident); ok && id.Name == "cancel" {
							hasCancel = true
						}
						if s, ok := cc.Fun.(*ast.SelectorExpr); ok && s.Sel.Name == "Handle" {
							retries = true
						}
					}
					return true
				})
			}
			nb := len(is.Body.List)
			if nb > 0 {
				if _, ok := is.Body.List[nb-1].(*ast.ReturnStmt); ok && hasCancel && !retries {
					stops = true
				}
			}
			return true
		})
	}
	o.f("Definition src_driver_stops_on_inconsistent : bool := %s. (* EVMDriver.handleNewBlock: errors.Is(err, ErrInconsistentState) => cancel(); return (no retry) *)\n", c14bool(stops))

	for _, p := range pkgs {
		c14ProcessorFacts(o, parsed[p.dir], p.prefix)
	}
	c14TreeFacts(o)
}

// c14AssignsMinus2 reports whether the node contains `<recv>.lastIndex = -2`.
func c14AssignsMinus2(n ast.Node, recv string) bool {
	found := false
	ast.Inspect(n, func(m ast.Node) bool {
		as, ok := m.(*ast.AssignStmt)
		if !ok || as.Tok != token.ASSIGN || len(as.Lhs) != 1 || len(as.Rhs) != 1 {
			return true
		}
		if !c14IsSel(as.Lhs[0], recv, "lastIndex") {
			return true
		}
		if u, ok := as.Rhs[0].(*ast.UnaryExpr); ok && u.Op == token.SUB {
			if bl, ok := u.X.(*ast.BasicLit); ok && bl.Kind == token.INT && bl.Value == "2" {
				found = true
			}
		}
		return true
	})
	return found
}

// tree/appendonlytree.go: does the append-only tree drop its in-memory index (lastIndex = -2) in Reorg, and in the
// rollback callback registered by AddLeaf?
func c14TreeFacts(o *out) {
	files := c14ParsePkg("tree")
	reorgResets, rollbackResets := false, false
	if _, fd := c14FindFunc(files, "AppendOnlyTree", "Reorg"); fd != nil {
		recv, _ := c14RecvOf(fd)
		callsBase := false
		ast.Inspect(fd.Body, func(n ast.Node) bool {
			if c, ok := n.(*ast.CallExpr); ok {
				if s, ok := c.Fun.(*ast.SelectorExpr); ok && s.Sel.Name == "Reorg" {
					callsBase = true
				}
			}
			return true
		})
		reorgResets = recv != "" && callsBase && c14AssignsMinus2(fd.Body, recv)
	}
	if _, fd := c14FindFunc(files, "AppendOnlyTree", "AddLeaf"); fd != nil {
		recv, _ := c14RecvOf(fd)
		ast.Inspect(fd.Body, func(n ast.Node) bool {
			c, ok := n.(*ast.CallExpr)
			if !ok || len(c.Args) != 1 {
				return true
			}
			s, ok := c.Fun.(*ast.SelectorExpr)
			if !ok || s.Sel.Name != "AddRollbackCallback" {
				return true
			}
			if fl, ok := c.Args[0].(*ast.FuncLit); ok && recv != "" && c14AssignsMinus2(fl.Body, recv) {
				rollbackResets = true
			}
			return true
		})
	}
	o.f("(* tree/appendonlytree.go: AppendOnlyTree.Reorg = Tree.Reorg + lastIndex = -2; AddLeaf's rollback callback sets lastIndex = -2 *)\n")
	o.f("Definition src_appendtree_reorg_resets_index : bool := %s.\n", c14bool(reorgResets))
	o.f("Definition src_appendtree_rollback_resets_index : bool := %s.\n", c14bool(rollbackResets))
}
