module gofacts

go 1.23
