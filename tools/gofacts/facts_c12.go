// C12 facts: constants of bridgeservice/bridge.go that the model of the claim flow hard-codes.
package main

func init() {
	extra = append(extra, func(o *out) {
		o.f("\n(* C12: constants of the bridge service's index search *)\n")
		emitConst(o, "src_c12_binary_search_divider", "bridgeservice/bridge.go", "binarySearchDivider")
		emitConst(o, "src_c12_mainnet_network_id", "bridgeservice/bridge.go", "mainnetNetworkID")
	})
}
