// C20 (ABI layer) facts:
//   - the argument types of claimAsset / claimMessage in the two contract bindings that bridgesync/downloader.go imports
//     (read from the ABI JSON inside the binding source of the module version pinned by /repo/go.mod, in the module cache);
//   - the `data[k].(T)` reads of decodeEtrogCalldata / decodePreEtrogCalldata in bridgesync/processor.go, in source order.
package main

import (
	"encoding/json"
	"go/ast"
	"go/parser"
	"go/token"
	"go/types"
	"os"
	"path/filepath"
	"regexp"
	"strconv"
	"strings"
)

func init() { extra = append(extra, factsC20Abi) }

// c20ModuleDir returns the directory of module `mod` at the version required by /repo/go.mod.
func c20ModuleDir(mod string) string {
	b, err := os.ReadFile(filepath.Join(repo, "go.mod"))
	if err != nil {
		return ""
	}
	re := regexp.MustCompile(`(?m)^\s*` + regexp.QuoteMeta(mod) + `\s+(v\S+)`)
	m := re.FindStringSubmatch(string(b))
	if m == nil {
		return ""
	}
	// module cache escaping: upper-case letters become '!' + lower-case
	var esc strings.Builder
	for _, c := range mod {
		if c >= 'A' && c <= 'Z' {
			esc.WriteByte('!')
			esc.WriteRune(c + 32)
		} else {
			esc.WriteRune(c)
		}
	}
	cache := os.Getenv("GOMODCACHE")
	if cache == "" {
		gp := os.Getenv("GOPATH")
		if gp == "" {
			gp = filepath.Join(os.Getenv("HOME"), "go")
		}
		cache = filepath.Join(gp, "pkg", "mod")
	}
	return filepath.Join(cache, esc.String()+"@"+m[1])
}

// c20AbiInputs finds `ABI: "<json>"` in the .go files of a binding package and returns the input types of `method`.
func c20AbiInputs(pkgDir, method string) []string {
	files, _ := filepath.Glob(filepath.Join(pkgDir, "*.go"))
	for _, p := range files {
		fset := token.NewFileSet()
		f, err := parser.ParseFile(fset, p, nil, 0)
		if err != nil || f == nil {
			continue
		}
		var abiJSON string
		ast.Inspect(f, func(n ast.Node) bool {
			kv, ok := n.(*ast.KeyValueExpr)
			if !ok {
				return true
			}
			if id, ok := kv.Key.(*ast.Ident); ok && id.Name == "ABI" {
				if bl, ok := kv.Value.(*ast.BasicLit); ok && bl.Kind == token.STRING {
					if s, err := strconv.Unquote(bl.Value); err == nil {
						abiJSON = s
					}
				}
			}
			return true
		})
		if abiJSON == "" {
			continue
		}
		var entries []struct {
			Type   string `json:"type"`
			Name   string `json:"name"`
			Inputs []struct {
				Type string `json:"type"`
			} `json:"inputs"`
		}
		if json.Unmarshal([]byte(abiJSON), &entries) != nil {
			continue
		}
		for _, e := range entries {
			if e.Type == "function" && e.Name == method {
				var ts []string
				for _, i := range e.Inputs {
					ts = append(ts, i.Type)
				}
				return ts
			}
		}
	}
	return nil
}

// c20DataReads lists the `data[k].(T)` expressions of a method of Claim, in source order, as "k:T".
func c20DataReads(f *ast.File, fn string) []string {
	var res []string
	fd := c16FuncOf(f, "Claim", fn)
	if fd == nil {
		return nil
	}
	ast.Inspect(fd.Body, func(n ast.Node) bool {
		ta, ok := n.(*ast.TypeAssertExpr)
		if !ok || ta.Type == nil {
			return true
		}
		ix, ok := ta.X.(*ast.IndexExpr)
		if !ok {
			return true
		}
		if id, ok := ix.X.(*ast.Ident); !ok || id.Name != "data" {
			return true
		}
		res = append(res, types.ExprString(ix.Index)+":"+types.ExprString(ta.Type))
		return true
	})
	return res
}

func factsC20Abi(o *out) {
	o.f("\n(* ---- C20: ABI layer ---- *)\n")
	dir := c20ModuleDir("github.com/0xPolygon/cdk-contracts-tooling")
	// the import paths of the two bindings, as written in bridgesync/downloader.go
	_, df := parseFile("bridgesync/downloader.go")
	imp := map[string]string{}
	if df != nil {
		for _, i := range df.Imports {
			p, _ := strconv.Unquote(i.Path.Value)
			if strings.HasPrefix(p, "github.com/0xPolygon/cdk-contracts-tooling/") {
				imp[filepath.Base(p)] = strings.TrimPrefix(p, "github.com/0xPolygon/cdk-contracts-tooling/")
			}
		}
	}
	for _, b := range [][3]string{
		{"src_c20_abi_etrog_claim_asset", "polygonzkevmbridgev2", "claimAsset"},
		{"src_c20_abi_etrog_claim_message", "polygonzkevmbridgev2", "claimMessage"},
		{"src_c20_abi_pre_claim_asset", "polygonzkevmbridge", "claimAsset"},
		{"src_c20_abi_pre_claim_message", "polygonzkevmbridge", "claimMessage"},
	} {
		var ts []string
		if sub, ok := imp[b[1]]; ok && dir != "" {
			ts = c20AbiInputs(filepath.Join(dir, filepath.FromSlash(sub)), b[2])
		}
		o.f("Definition %s : list string := [%s]. (* inputs of %s in the %s binding *)\n", b[0], c16StrList(ts), b[2], b[1])
	}
	_, pf := parseFile("bridgesync/processor.go")
	o.f("Definition src_c20_etrog_data_reads : list string := [%s]. (* decodeEtrogCalldata *)\n", c16StrList(c20DataReads(pf, "decodeEtrogCalldata")))
	o.f("Definition src_c20_pre_data_reads : list string := [%s]. (* decodePreEtrogCalldata *)\n", c16StrList(c20DataReads(pf, "decodePreEtrogCalldata")))
}
