// C09 facts (syntactic): how the flows fill the certificate's L1 info root / leaf count, which field of the syncer's
// leaf becomes the certificate leaf's BlockHash, and which functions call the finalized-claims check.
package main

import (
	"go/ast"
	"go/types"
	"strings"
)

// c09AssignRHS: source text of the right-hand sides of every `<...>.field = rhs` in the method recv.name of file.
func c09AssignRHS(file, recv, name, field string) []string {
	_, f := parseFile(file)
	var res []string
	if f == nil {
		return res
	}
	for _, d := range f.Decls {
		fd, ok := d.(*ast.FuncDecl)
		if !ok || fd.Name.Name != name || fd.Body == nil || !c09RecvIs(fd, recv) {
			continue
		}
		ast.Inspect(fd.Body, func(n ast.Node) bool {
			if as, ok := n.(*ast.AssignStmt); ok && len(as.Lhs) == 1 && len(as.Rhs) == 1 {
				if sel, ok := as.Lhs[0].(*ast.SelectorExpr); ok && sel.Sel.Name == field {
					res = append(res, types.ExprString(as.Rhs[0]))
				}
			}
			return true
		})
	}
	return res
}

func c09RecvIs(fd *ast.FuncDecl, recv string) bool {
	if fd.Recv == nil || len(fd.Recv.List) != 1 {
		return false
	}
	t := fd.Recv.List[0].Type
	if st, ok := t.(*ast.StarExpr); ok {
		t = st.X
	}
	id, ok := t.(*ast.Ident)
	return ok && id.Name == recv
}

// c09KeyValues: source text of every `key: value` composite-literal element with that key inside recv.name of file.
func c09KeyValues(file, recv, name, key string) []string {
	_, f := parseFile(file)
	var res []string
	if f == nil {
		return res
	}
	for _, d := range f.Decls {
		fd, ok := d.(*ast.FuncDecl)
		if !ok || fd.Name.Name != name || fd.Body == nil || !c09RecvIs(fd, recv) {
			continue
		}
		ast.Inspect(fd.Body, func(n ast.Node) bool {
			if kv, ok := n.(*ast.KeyValueExpr); ok {
				if id, ok := kv.Key.(*ast.Ident); ok && id.Name == key {
					res = append(res, types.ExprString(kv.Value))
				}
			}
			return true
		})
	}
	return res
}

// c09Callers: names of the functions of the given files whose body calls a method/function called `callee`.
func c09Callers(files []string, callee string) []string {
	var res []string
	for _, file := range files {
		_, f := parseFile(file)
		if f == nil {
			continue
		}
		for _, d := range f.Decls {
			fd, ok := d.(*ast.FuncDecl)
			if !ok || fd.Body == nil {
				continue
			}
			found := false
			ast.Inspect(fd.Body, func(n ast.Node) bool {
				if call, ok := n.(*ast.CallExpr); ok {
					if sel, ok := call.Fun.(*ast.SelectorExpr); ok && sel.Sel.Name == callee {
						found = true
					}
				}
				return true
			})
			if found {
				res = append(res, fd.Name.Name)
			}
		}
	}
	return res
}

func c09List(xs []string) string {
	q := make([]string, 0, len(xs))
	for _, x := range xs {
		q = append(q, "\""+strings.ReplaceAll(x, "\"", "\"\"")+"\"")
	}
	return "[" + strings.Join(q, "; ") + "]"
}

func init() {
	extra = append(extra, func(o *out) {
		o.f("\n(* C09: what the flows put into the certificate for the L1 info tree *)\n")
		o.f("Definition src_c09_pp_leaf_count_rhs : list string := %s. (* PPFlow.GetCertificateBuildParams: buildParams.L1InfoTreeLeafCount = ... *)\n",
			c09List(c09AssignRHS("aggsender/flows/flow_pp.go", "PPFlow", "GetCertificateBuildParams", "L1InfoTreeLeafCount")))
		o.f("Definition src_c09_pp_root_rhs : list string := %s. (* ... buildParams.L1InfoTreeRootFromWhichToProve = ... *)\n",
			c09List(c09AssignRHS("aggsender/flows/flow_pp.go", "PPFlow", "GetCertificateBuildParams", "L1InfoTreeRootFromWhichToProve")))
		o.f("Definition src_c09_leaf_block_hash : list string := %s. (* getImportedBridgeExits: Inner.BlockHash: ... (both claim kinds) *)\n",
			c09List(c09KeyValues("aggsender/flows/flow_base.go", "baseFlow", "getImportedBridgeExits", "BlockHash")))
		o.f("Definition src_c09_leaf_mer : list string := %s. (* getImportedBridgeExits: L1Leaf.MainnetExitRoot: ... *)\n",
			c09List(c09KeyValues("aggsender/flows/flow_base.go", "baseFlow", "getImportedBridgeExits", "MainnetExitRoot")))
		o.f("Definition src_c09_leaf_rer : list string := %s. (* getImportedBridgeExits: L1Leaf.RollupExitRoot: ... *)\n",
			c09List(c09KeyValues("aggsender/flows/flow_base.go", "baseFlow", "getImportedBridgeExits", "RollupExitRoot")))
		o.f("Definition src_c09_finalized_claims_check_callers : list string := %s. (* functions of aggsender/flows/*.go calling CheckIfClaimsArePartOfFinalizedL1InfoTree *)\n",
			c09List(c09Callers([]string{"aggsender/flows/flow_base.go", "aggsender/flows/flow_pp.go", "aggsender/flows/flow_aggchain_prover.go"},
				"CheckIfClaimsArePartOfFinalizedL1InfoTree")))
	})
}
