// C06 facts: the DDL of the reorg detector's tables (tracked_block has no key: the model keeps a multiset of rows), the
// DELETE statement of removeTrackedBlockRange (both ends inclusive), and the order of the calls in handleNewBlock
// (AddBlockToTrack before ProcessBlock) and in the mismatch branch of detectReorgInTrackedList (notify before the
// deletion of the range).
package main

import (
	"go/ast"
	"go/token"
	"os"
	"path/filepath"
	"regexp"
	"strconv"
	"strings"
)

func init() { extra = append(extra, factsC06) }

var c06ws = regexp.MustCompile(`\s+`)

func c06coqString(s string) string { return `"` + strings.ReplaceAll(s, `"`, `""`) + `"` }

// c06CallPos returns the source offsets of the calls `<anything>.<method>(...)` inside function fn of file, in order.
func c06CallPos(file, fn, method string) []token.Pos {
	_, f := parseFile(file)
	if f == nil {
		return nil
	}
	var res []token.Pos
	for _, d := range f.Decls {
		fd, ok := d.(*ast.FuncDecl)
		if !ok || fd.Name.Name != fn || fd.Body == nil {
			continue
		}
		ast.Inspect(fd.Body, func(x ast.Node) bool {
			if ce, ok := x.(*ast.CallExpr); ok {
				if se, ok := ce.Fun.(*ast.SelectorExpr); ok && se.Sel.Name == method {
					res = append(res, ce.Pos())
				}
			}
			return true
		})
	}
	return res
}

// c06FirstSQL returns the first string literal of function fn that starts with the given SQL verb.
func c06FirstSQL(file, fn, verb string) string {
	_, f := parseFile(file)
	if f == nil {
		return ""
	}
	res := ""
	for _, d := range f.Decls {
		fd, ok := d.(*ast.FuncDecl)
		if !ok || fd.Name.Name != fn || fd.Body == nil {
			continue
		}
		ast.Inspect(fd.Body, func(x ast.Node) bool {
			if bl, ok := x.(*ast.BasicLit); ok && bl.Kind == token.STRING && res == "" {
				if s, err := strconv.Unquote(bl.Value); err == nil {
					s = strings.TrimSpace(c06ws.ReplaceAllString(s, " "))
					if strings.HasPrefix(strings.ToUpper(s), verb) {
						res = s
					}
				}
			}
			return true
		})
	}
	return res
}

func factsC06(o *out) {
	o.f("\n(* ---- C06: reorg detector ---- *)\n")
	var up strings.Builder
	files, _ := filepath.Glob(filepath.Join(repo, "reorgdetector", "migrations", "*.sql"))
	for _, p := range files {
		b, err := os.ReadFile(p)
		if err != nil {
			continue
		}
		txt := string(b)
		if i := strings.Index(txt, "+migrate Up"); i >= 0 {
			txt = txt[i+len("+migrate Up"):]
			if j := strings.Index(txt, "+migrate Down"); j >= 0 {
				txt = txt[:j]
			}
		} else {
			txt = ""
		}
		up.WriteString(txt)
		up.WriteString("\n")
	}
	ddl := up.String()
	body := func(name string) (string, bool) {
		re := regexp.MustCompile(`(?is)CREATE\s+TABLE\s+(IF\s+NOT\s+EXISTS\s+)?` + name + `\s*\((.*)`)
		m := re.FindStringSubmatch(ddl)
		if m == nil {
			return "", false
		}
		// up to the matching closing parenthesis
		depth := 1
		for i, c := range m[2] {
			switch c {
			case '(':
				depth++
			case ')':
				depth--
				if depth == 0 {
					return m[2][:i], true
				}
			}
		}
		return m[2], true
	}
	tb, ok := body("tracked_block")
	keyed := !ok || regexp.MustCompile(`(?i)PRIMARY\s+KEY|UNIQUE`).MatchString(tb) ||
		regexp.MustCompile(`(?is)CREATE\s+UNIQUE\s+INDEX[^;]*\bON\s+tracked_block\b`).MatchString(ddl)
	o.f("Definition src_c06_tracked_block_has_key : bool := %v. (* PRIMARY KEY / UNIQUE on tracked_block, reorgdetector/migrations *)\n", keyed)
	pk := ""
	if eb, ok := body("reorg_event"); ok {
		if m := regexp.MustCompile(`(?is)PRIMARY\s+KEY\s*\(([^)]*)\)`).FindStringSubmatch(eb); m != nil {
			var cols []string
			for _, c := range strings.Split(m[1], ",") {
				cols = append(cols, strings.TrimSpace(c))
			}
			pk = strings.Join(cols, ",")
		}
	}
	o.f("Definition src_c06_reorg_event_pk : string := %s. (* PRIMARY KEY of reorg_event *)\n", c06coqString(pk))
	o.f("Definition src_c06_sql_remove_range : string := %s. (* removeTrackedBlockRange *)\n",
		c06coqString(c06FirstSQL("reorgdetector/reorgdetector_db.go", "removeTrackedBlockRange", "DELETE")))
	// handleNewBlock: every AddBlockToTrack call precedes every ProcessBlock call
	tr := c06CallPos("sync/evmdriver.go", "handleNewBlock", "AddBlockToTrack")
	pr := c06CallPos("sync/evmdriver.go", "handleNewBlock", "ProcessBlock")
	before := len(tr) > 0 && len(pr) > 0
	for _, a := range tr {
		for _, b := range pr {
			if a >= b {
				before = false
			}
		}
	}
	o.f("Definition src_c06_track_before_process : bool := %v. (* sync/evmdriver.go handleNewBlock: AddBlockToTrack before ProcessBlock *)\n", before)
	// detectReorgInTrackedList: notifySubscriber precedes the last removeTrackedBlockRange (the range deletion)
	nt := c06CallPos("reorgdetector/reorgdetector.go", "detectReorgInTrackedList", "notifySubscriber")
	rm := c06CallPos("reorgdetector/reorgdetector.go", "detectReorgInTrackedList", "removeTrackedBlockRange")
	notifyFirst := len(nt) == 1 && len(rm) == 2 && rm[0] < nt[0] && nt[0] < rm[1]
	o.f("Definition src_c06_notify_before_range_delete : bool := %v. (* detectReorgInTrackedList: untrack-one, notifySubscriber, delete-range in this source order *)\n", notifyFirst)
}
