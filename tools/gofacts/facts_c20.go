// C20 facts: the four claim method selectors of bridgesync/downloader.go (var x = common.Hex2Bytes("...")).
package main

import (
	"go/ast"
	"go/token"
	"strconv"
	"strings"
)

// c20HexBytesVar finds `name = common.Hex2Bytes("<hex>")` in a var/const declaration of the file.
func c20HexBytesVar(f *ast.File, name string) (string, bool) {
	if f == nil {
		return "", false
	}
	for _, d := range f.Decls {
		gd, ok := d.(*ast.GenDecl)
		if !ok {
			continue
		}
		for _, s := range gd.Specs {
			vs, ok := s.(*ast.ValueSpec)
			if !ok {
				continue
			}
			for i, n := range vs.Names {
				if n.Name != name || i >= len(vs.Values) {
					continue
				}
				call, ok := vs.Values[i].(*ast.CallExpr)
				if !ok || len(call.Args) != 1 {
					return "", false
				}
				sel, ok := call.Fun.(*ast.SelectorExpr)
				if !ok || sel.Sel.Name != "Hex2Bytes" {
					return "", false
				}
				lit, ok := call.Args[0].(*ast.BasicLit)
				if !ok || lit.Kind != token.STRING {
					return "", false
				}
				v, err := strconv.Unquote(lit.Value)
				if err != nil {
					return "", false
				}
				v = strings.ToLower(strings.TrimPrefix(v, "0x"))
				if len(v) == 0 || len(v) > 16 {
					return "", false
				}
				if _, err := strconv.ParseUint(v, 16, 64); err != nil {
					return "", false
				}
				return v, true
			}
		}
	}
	return "", false
}

func init() {
	extra = append(extra, func(o *out) {
		o.f("\n(* C20: claim method selectors (bridgesync/downloader.go) *)\n")
		_, f := parseFile("bridgesync/downloader.go")
		for _, p := range [][2]string{
			{"src_claim_asset_etrog_selector", "claimAssetEtrogMethodID"},
			{"src_claim_message_etrog_selector", "claimMessageEtrogMethodID"},
			{"src_claim_asset_pre_etrog_selector", "claimAssetPreEtrogMethodID"},
			{"src_claim_message_pre_etrog_selector", "claimMessagePreEtrogMethodID"},
		} {
			v, ok := c20HexBytesVar(f, p[1])
			if !ok {
				o.f("Definition %s : option N := None. (* %s not found as common.Hex2Bytes(\"..\") in bridgesync/downloader.go *)\n", p[0], p[1])
				continue
			}
			o.f("Definition %s : option N := Some 0x%s%%N. (* %s in bridgesync/downloader.go *)\n", p[0], v, p[1])
		}
		emitConst(o, "src_method_id_length", "bridgesync/downloader.go", "methodIDLength")
	})
}
