// C13 facts: certificate statuses (iota order), NonSettledStatuses, the primary keys of the two certificate
// tables, the column SaveLastSentCertificate deletes by, and the metadata version constants.
package main

import (
	"go/ast"
	"go/token"
	"os"
	"path/filepath"
	"regexp"
	"strings"
)

func init() { extra = append(extra, factsC13) }

func coqStrList(xs []string) string {
	q := make([]string, len(xs))
	for i, x := range xs {
		q[i] = "\"" + x + "\""
	}
	return "[" + strings.Join(q, "; ") + "]"
}

// iotaBlockC13 returns the names of the const block that starts with `<first> <type> = iota`, up to the first
// spec that carries its own value.
func iotaBlockC13(f *ast.File, typ string) []string {
	if f == nil {
		return nil
	}
	for _, d := range f.Decls {
		gd, ok := d.(*ast.GenDecl)
		if !ok || gd.Tok != token.CONST {
			continue
		}
		var names []string
		started := false
		for _, s := range gd.Specs {
			vs := s.(*ast.ValueSpec)
			if !started {
				id, isID := vs.Type.(*ast.Ident)
				if isID && id.Name == typ && len(vs.Values) == 1 {
					if v, ok := vs.Values[0].(*ast.Ident); ok && v.Name == "iota" {
						started = true
						names = append(names, vs.Names[0].Name)
					}
				}
				continue
			}
			if len(vs.Values) != 0 || vs.Type != nil {
				break
			}
			names = append(names, vs.Names[0].Name)
		}
		if started {
			return names
		}
	}
	return nil
}

// sliceVarC13 returns the identifiers of `name = []T{a, b, c}`.
func sliceVarC13(f *ast.File, name string) []string {
	if f == nil {
		return nil
	}
	for _, d := range f.Decls {
		gd, ok := d.(*ast.GenDecl)
		if !ok || gd.Tok != token.VAR {
			continue
		}
		for _, s := range gd.Specs {
			vs := s.(*ast.ValueSpec)
			for i, n := range vs.Names {
				if n.Name != name || i >= len(vs.Values) {
					continue
				}
				cl, ok := vs.Values[i].(*ast.CompositeLit)
				if !ok {
					return nil
				}
				var out []string
				for _, e := range cl.Elts {
					if id, ok := e.(*ast.Ident); ok {
						out = append(out, id.Name)
					}
				}
				return out
			}
		}
	}
	return nil
}

func primaryKeyC13(sql, table string) []string {
	re := regexp.MustCompile(`(?s)CREATE TABLE ` + table + `\s*\((.*?)\);`)
	m := re.FindStringSubmatch(sql)
	if m == nil {
		return nil
	}
	pk := regexp.MustCompile(`PRIMARY KEY\s*\(([^)]*)\)`).FindStringSubmatch(m[1])
	if pk == nil {
		return nil
	}
	var cols []string
	for _, c := range strings.Split(pk[1], ",") {
		cols = append(cols, strings.TrimSpace(c))
	}
	return cols
}

func factsC13(o *out) {
	o.f("\n(* C13 *)\n")
	_, f := parseFile("agglayer/types/types.go")
	o.f("Definition src_certificate_statuses : list string := %s. (* iota block of CertificateStatus in agglayer/types/types.go *)\n",
		coqStrList(iotaBlockC13(f, "CertificateStatus")))
	o.f("Definition src_non_settled_statuses : list string := %s. (* NonSettledStatuses in agglayer/types/types.go *)\n",
		coqStrList(sliceVarC13(f, "NonSettledStatuses")))
	sql, _ := os.ReadFile(filepath.Join(repo, "aggsender/db/migrations/0001.sql"))
	o.f("Definition src_certificate_info_pk : list string := %s. (* aggsender/db/migrations/0001.sql *)\n",
		coqStrList(primaryKeyC13(string(sql), "certificate_info")))
	o.f("Definition src_certificate_info_history_pk : list string := %s. (* aggsender/db/migrations/0001.sql *)\n",
		coqStrList(primaryKeyC13(string(sql), "certificate_info_history")))
	src, _ := os.ReadFile(filepath.Join(repo, "aggsender/db/aggsender_db_storage.go"))
	del := regexp.MustCompile("DELETE FROM certificate_info WHERE (\\w+) = \\$1").FindStringSubmatch(string(src))
	col := ""
	if del != nil {
		col = del[1]
	}
	o.f("Definition src_delete_certificate_by : string := \"%s\". (* deleteCertificate in aggsender/db/aggsender_db_storage.go *)\n", col)
	emitConst(o, "src_certificate_metadata_v0", "aggsender/types/certificate_metadata.go", "CertificateMetadataV0")
	emitConst(o, "src_certificate_metadata_v1", "aggsender/types/certificate_metadata.go", "CertificateMetadataV1")
	emitConst(o, "src_certificate_metadata_v2", "aggsender/types/certificate_metadata.go", "CertificateMetadataV2")
}
