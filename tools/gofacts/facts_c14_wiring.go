package main

import (
	"go/ast"
	"go/types"
	"strings"
)

// C14: one processor per syncer. The halted flag lives in the processor object; the facade methods read it from the processor the
// facade struct holds, ProcessBlock / Reorg set and clear it on the processor the driver holds. For each constructor: how many
// processors it creates (calls of a function whose name contains "newProcessor" / "NewProcessor"), and whether the expression
// handed to sync.NewEVMDriver as the processor is the very identifier stored in the facade struct's `processor` field.
func c14Wiring(file, fn string) (created int, same bool, note string) {
	_, f := parseFile(file)
	var fd *ast.FuncDecl
	if f != nil {
		for _, d := range f.Decls {
			if x, ok := d.(*ast.FuncDecl); ok && x.Recv == nil && x.Name.Name == fn {
				fd = x
			}
		}
	}
	if fd == nil {
		return 0, false, "constructor not found"
	}
	driverArg, fieldVal := "", ""
	ast.Inspect(fd.Body, func(n ast.Node) bool {
		switch v := n.(type) {
		case *ast.CallExpr:
			name := types.ExprString(v.Fun)
			if i := strings.LastIndex(name, "."); i >= 0 {
				name = name[i+1:]
			}
			if strings.Contains(strings.ToLower(name), "newprocessor") || strings.Contains(strings.ToLower(name), "newqueryprocessor") {
				created++
			}
			if name == "NewEVMDriver" && len(v.Args) >= 2 {
				driverArg = types.ExprString(v.Args[1])
			}
		case *ast.KeyValueExpr:
			if k, ok := v.Key.(*ast.Ident); ok && k.Name == "processor" {
				fieldVal = types.ExprString(v.Value)
			}
		}
		return true
	})
	_, isIdent := parseIdent(driverArg)
	same = driverArg != "" && driverArg == fieldVal && isIdent
	return created, same, "NewEVMDriver(_, " + driverArg + ", ...); facade{processor: " + fieldVal + "}"
}

func parseIdent(s string) (string, bool) {
	if s == "" {
		return "", false
	}
	for _, r := range s {
		if !(r == '_' || r >= '0' && r <= '9' || r >= 'a' && r <= 'z' || r >= 'A' && r <= 'Z') {
			return s, false
		}
	}
	return s, true
}

func init() {
	extra = append(extra, func(o *out) {
		o.f("\n(* C14: one processor per syncer (the object that carries the halted flag) *)\n")
		var rows []string
		for _, c := range [][2]string{{"l1infotreesync/l1infotreesync.go", "New"}, {"bridgesync/bridgesync.go", "newBridgeSync"},
			{"lastgersync/lastgersync.go", "New"}} {
			n, same, note := c14Wiring(c[0], c[1])
			b := "false"
			if same {
				b = "true"
			}
			rows = append(rows, "(\""+c[0]+" "+c[1]+"\", "+itoa(n)+"%nat, "+b+")")
			o.f("(* %s %s: %s *)\n", c[0], c[1], strings.ReplaceAll(note, "*)", "* )"))
		}
		o.f("Definition src_c14_processor_wiring : list (string * nat * bool) := [%s]. (* constructor, processors created, driver's processor = facade's processor *)\n",
			strings.Join(rows, "; "))
	})
}

func itoa(n int) string {
	s := ""
	if n == 0 {
		return "0"
	}
	for n > 0 {
		s = string(rune('0'+n%10)) + s
		n /= 10
	}
	return s
}
