#!/usr/bin/env python3
"""Shared driver of the /verif checks (see DESIGN.md section 1).

Per property a module props/cXX.py describes: which Coq files carry the theorems, which Go harness
produces observations of the real code, how observations become a Coq `cases` term, and which Gallina
functions compare model vs implementation (`corr`) and evaluate the property itself on the
implementation's observations (`spec`).
"""
import hashlib
import importlib
import json
import os
import re
import shutil
import subprocess
import sys
import time

VERIF = os.path.dirname(os.path.dirname(os.path.abspath(__file__)))
REPO = os.environ.get("VERIF_REPO", "/repo")
COQ = os.path.join(VERIF, "coq")
BUILD = os.path.join(VERIF, "build")
GO_TOOLCHAIN = "/root/go/pkg/mod/golang.org/toolchain@v0.0.1-go1.24.4.linux-amd64/bin"

STD_AXIOMS_ALLOWED = {
    # axioms declared by Coq's standard library / installed libraries; each use is named in evidence
    "ClassicalDedekindReals.sig_forall_dec", "ClassicalDedekindReals.sig_not_dec",
    "FunctionalExtensionality.functional_extensionality_dep", "Classical_Prop.classic",
    "functional_extensionality_dep", "classic", "sig_forall_dec", "sig_not_dec",
    "Eqdep.Eq_rect_eq.eq_rect_eq", "JMeq.JMeq_eq", "ProofIrrelevance.proof_irrelevance",
}

FORBIDDEN = re.compile(
    r"\b(Admitted|admit|Axiom|Axioms|Parameter|Parameters|Conjecture|Conjectures|Admit Obligations)\b"
    r"|Unset\s+Guard|bypass_check|type-in-type|impredicative-set|Unset\s+Universe\s+Checking|Unset\s+Positivity")


def go_env():
    e = dict(os.environ)
    e["PATH"] = GO_TOOLCHAIN + ":" + e.get("PATH", "")
    e.update(GOFLAGS="-mod=mod", GOPROXY="off", GOSUMDB="off", GOTOOLCHAIN="local", CGO_ENABLED="1")
    return e


def sh(cmd, cwd=None, timeout=600, env=None):
    """Run a command; returns (rc, combined output). rc=124 on timeout."""
    try:
        p = subprocess.run(cmd, cwd=cwd, env=env, timeout=timeout, stdout=subprocess.PIPE,
                           stderr=subprocess.STDOUT, shell=isinstance(cmd, str))
        return p.returncode, p.stdout.decode("utf-8", "replace")
    except subprocess.TimeoutExpired as ex:
        out = ex.stdout.decode("utf-8", "replace") if ex.stdout else ""
        return 124, out + "\n[timeout after %ss]" % timeout


# ---------------------------------------------------------------------------------------------
# Coq side
# ---------------------------------------------------------------------------------------------

def write_if_changed(path, text):
    old = None
    if os.path.exists(path):
        with open(path) as f:
            old = f.read()
    if old != text:
        os.makedirs(os.path.dirname(path), exist_ok=True)
        with open(path, "w") as f:
            f.write(text)
        return True
    return False


def build_gofacts():
    os.makedirs(BUILD, exist_ok=True)
    rc, out = sh(["go", "build", "-o", os.path.join(BUILD, "gofacts"), "."],
                 cwd=os.path.join(VERIF, "tools", "gofacts"), env=go_env(), timeout=300)
    if rc != 0:
        raise RuntimeError("gofacts does not build:\n" + out)


def build_go2coq():
    os.makedirs(BUILD, exist_ok=True)
    rc, out = sh(["go", "build", "-o", os.path.join(BUILD, "go2coq"), "."],
                 cwd=os.path.join(VERIF, "tools", "go2coq"), env=go_env(), timeout=300)
    if rc != 0:
        raise RuntimeError("go2coq does not build:\n" + out)


def regen_generated():
    """Translator 2: Go functions of /repo -> Gallina definitions coq/theories/Gen/Gen*.v (tools/go2coq; each file is
    rewritten only when its content changes). A function the translator cannot handle leaves a comment-only file: the
    agreement proofs importing it then fail, which the check reports as a broken obligation."""
    exe = os.path.join(BUILD, "go2coq")
    gdir = os.path.join(VERIF, "tools", "go2coq")
    newest = max(os.path.getmtime(os.path.join(gdir, n)) for n in os.listdir(gdir))
    if not os.path.exists(exe) or os.path.getmtime(exe) < newest:
        build_go2coq()
    rc, out = sh([exe, REPO, os.path.join(COQ, "theories", "Gen")], timeout=120)
    return rc, out


def regen_facts():
    """Translator: /repo source -> coq/theories/Gen/SourceFacts.v (written only when changed)."""
    exe = os.path.join(BUILD, "gofacts")
    gdir = os.path.join(VERIF, "tools", "gofacts")
    newest = max(os.path.getmtime(os.path.join(gdir, n)) for n in os.listdir(gdir))
    if not os.path.exists(exe) or os.path.getmtime(exe) < newest:
        build_gofacts()
    rc, out = sh([exe, REPO], timeout=120)
    if rc != 0:
        raise RuntimeError("gofacts failed:\n" + out)
    write_if_changed(os.path.join(COQ, "theories", "Gen", "SourceFacts.v"), out)
    regen_generated()
    return out


def mk_coqproject():
    files = []
    for root, _, names in os.walk(os.path.join(COQ, "theories")):
        for n in names:
            if n.endswith(".v"):
                files.append(os.path.relpath(os.path.join(root, n), COQ))
    files.sort()
    text = "-Q theories Verif\n-arg -w -arg -notation-overridden,-deprecated-hint-without-locality,-deprecated-instance-without-locality\n" + "\n".join(files) + "\n"
    changed = write_if_changed(os.path.join(COQ, "_CoqProject"), text)
    if changed or not os.path.exists(os.path.join(COQ, "Makefile")):
        rc, out = sh(["coq_makefile", "-f", "_CoqProject", "-o", "Makefile"], cwd=COQ, timeout=60)
        if rc != 0:
            raise RuntimeError("coq_makefile failed:\n" + out)


def coq_make(targets=None, timeout=1500, jobs=16):
    """Full .vo build of the given targets (all when None) under a shell timeout."""
    mk_coqproject()
    cmd = ["make", "-j%d" % jobs] + (targets or [])
    return sh(cmd, cwd=COQ, timeout=timeout)


def coqc(path, timeout=600):
    """Compile one file (relative to coq/) and return (rc, output)."""
    return sh(["coqc", "-Q", "theories", "Verif", "-w", "-notation-overridden,-deprecated-hint-without-locality", path], cwd=COQ, timeout=timeout)


STMT = re.compile(r"^\s*(Theorem|Lemma|Example|Corollary|Fact|Proposition)\s+([A-Za-z_][\w']*)", re.M)


def obligations_of(vfile):
    with open(os.path.join(COQ, vfile)) as f:
        src = f.read()
    return [(m.group(2), src.count("\n", 0, m.start()) + 1) for m in STMT.finditer(src)]


def forbidden_scan():
    """No Admitted/admit/Axiom/... anywhere in the development; Variable/Hypothesis only inside sections."""
    bad = []
    for root, _, names in os.walk(os.path.join(COQ, "theories")):
        for n in names:
            if not n.endswith(".v"):
                continue
            p = os.path.join(root, n)
            depth = 0
            with open(p) as f:
                text = f.read()
            # strip comments (non-nested is enough for our sources; nested handled by loop)
            prev = None
            while prev != text:
                prev = text
                text = re.sub(r"\(\*[^*(]*(?:\*(?!\))[^*(]*|\((?!\*)[^*(]*)*\*\)", " ", text)
            for i, line in enumerate(text.split("\n"), 1):
                if FORBIDDEN.search(line):
                    bad.append("%s:%d: %s" % (os.path.relpath(p, VERIF), i, line.strip()[:120]))
                if re.match(r"\s*Section\s+\w+", line):
                    depth += 1
                elif re.match(r"\s*End\s+\w+", line) and depth > 0:
                    depth -= 1
                elif depth == 0 and re.match(r"\s*(Variable|Variables|Hypothesis|Hypotheses|Context)\b", line):
                    bad.append("%s:%d: %s outside a section" % (os.path.relpath(p, VERIF), i, line.strip()[:80]))
    return bad


def parse_assumptions(out):
    """Split coqc output of a Properties file into one entry per Print Assumptions."""
    res = []
    cur = None
    for line in out.split("\n"):
        if line.startswith("Closed under the global context"):
            res.append({"closed": True, "axioms": []})
            cur = None
        elif line.startswith("Axioms:"):
            cur = {"closed": False, "axioms": []}
            res.append(cur)
        elif cur is not None:
            m = re.match(r"^([A-Za-z_][\w.']*)\s*(:|$)", line)
            if m:
                cur["axioms"].append(m.group(1))
    return res


# ---------------------------------------------------------------------------------------------
# Go side
# ---------------------------------------------------------------------------------------------

def build_harness(pkg, timeout=900):
    """Build /verif/harness/<pkg> against /repo's CURRENT working tree with the hooks on."""
    hdir = os.path.join(VERIF, "harness")
    try:
        shutil.copyfile(os.path.join(REPO, "go.sum"), os.path.join(hdir, "go.sum"))
    except OSError:
        pass
    # the harness module replaces github.com/agglayer/aggkit by the tree under test (VERIF_REPO, default /repo)
    gm = os.path.join(hdir, "go.mod")
    with open(gm) as f:
        txt = f.read()
    new = re.sub(r"replace github.com/agglayer/aggkit => \S+", "replace github.com/agglayer/aggkit => " + REPO, txt)
    if new != txt:
        with open(gm, "w") as f:
            f.write(new)
    exe = os.path.join(BUILD, "h_" + pkg)
    rc, out = sh(["go", "build", "-tags", "verif", "-o", exe, "./" + pkg], cwd=hdir, env=go_env(), timeout=timeout)
    return rc, out, exe


def run_harness(exe, args, timeout=900):
    return sh([exe] + args, timeout=timeout, env=go_env())


def read_jsonl(path):
    out = []
    with open(path) as f:
        for line in f:
            line = line.strip()
            if line:
                out.append(json.loads(line))
    return out


# ---------------------------------------------------------------------------------------------
# Coq literal helpers for case files
# ---------------------------------------------------------------------------------------------

def cN(v):
    """N literal from int / decimal string."""
    return "%d%%N" % int(v)


def cNhex(h):
    """N literal (big-endian value) from a hex string."""
    h = h[2:] if h.startswith("0x") else h
    return "0x%s%%N" % (h if h else "0")


def cbn(h):
    """(length, value) pair for a hex byte string."""
    h = h[2:] if h.startswith("0x") else h
    return "(%d%%nat, %s)" % (len(h) // 2, cNhex(h))


def cbytes(h):
    """list N literal for a hex byte string."""
    h = h[2:] if h.startswith("0x") else h
    return "[" + ";".join(str(int(h[i:i + 2], 16)) for i in range(0, len(h), 2)) + "]%N"


def cbool(b):
    return "true" if b else "false"


def cnat(n):
    return "%d%%nat" % int(n)


def clist(items):
    return "[" + "; ".join(items) + "]"


def copt(x):
    return "None" if x is None else "(Some %s)" % x


def cstr(s):
    return '"' + s.replace('"', '""') + '"%string'


RESULT_RE = lambda name: re.compile(name + r"\s*=\s*(\[[^\]]*\])\s*:\s*list nat", re.S)


def eval_cases(pid, imports, cases_terms, case_type, corr, spec, shard_size=400, timeout=900, extra_defs=""):
    """Write Cases_<pid>_<k>.v files, evaluate corr/spec on every case with vm_compute inside coqc.
    Returns (mismatch indices, violation indices, log)."""
    cdir = os.path.join(COQ, "cases")
    os.makedirs(cdir, exist_ok=True)
    for n in os.listdir(cdir):
        if n.startswith("Cases_%s_" % pid):
            os.remove(os.path.join(cdir, n))
    shards = [cases_terms[i:i + shard_size] for i in range(0, len(cases_terms), shard_size)] or [[]]
    MAXPAR = int(os.environ.get("VERIF_COQ_PAR", "10"))      # bound on concurrent coqc processes (memory)
    mism, viol, log = [], [], []
    for b0 in range(0, len(shards), MAXPAR):
        procs = []
        for k in range(b0, min(b0 + MAXPAR, len(shards))):
            shard = shards[k]
            name = "Cases_%s_%d" % (pid, k)
            src = [imports, "Import ListNotations.", extra_defs,
                   "Definition cases : list (%s) := [" % case_type,
                   ";\n".join(shard), "]."]
            src.append("Definition RESULT_mism := Eval vm_compute in bad_indices (%s) 0 cases." % corr)
            src.append("Definition RESULT_viol := Eval vm_compute in bad_indices (%s) 0 cases." % spec)
            src.append("Print RESULT_mism.\nPrint RESULT_viol.")
            with open(os.path.join(cdir, name + ".v"), "w") as f:
                f.write("\n".join(src) + "\n")
            procs.append((k, subprocess.Popen(
                ["timeout", str(timeout), "coqc", "-Q", "theories", "Verif", "-w", "-notation-overridden", "cases/%s.v" % name],
                cwd=COQ, stdout=subprocess.PIPE, stderr=subprocess.STDOUT)))
        for k, p in procs:
            out = p.communicate()[0].decode("utf-8", "replace")
            base = k * shard_size
            m1 = RESULT_RE("RESULT_mism").search(out)
            m2 = RESULT_RE("RESULT_viol").search(out)
            if p.returncode != 0 or not m1 or not m2:
                log.append("shard %d: coqc rc=%s\n%s" % (k, p.returncode, out[-3000:]))
                return None, None, "\n".join(log)
            mism += [base + int(x) for x in re.findall(r"\d+", m1.group(1))]
            viol += [base + int(x) for x in re.findall(r"\d+", m2.group(1))]
        # compiled shard outputs are scratch: free the disk before the next batch
        for n in os.listdir(cdir):
            if n.startswith("Cases_%s_" % pid) and not n.endswith(".v"):
                os.remove(os.path.join(cdir, n))
    # remove compiled case files (they are per-run scratch)
    for n in os.listdir(cdir):
        if n.startswith("Cases_%s_" % pid) and not n.endswith(".v"):
            os.remove(os.path.join(cdir, n))
        if n.startswith(".Cases_%s_" % pid):
            os.remove(os.path.join(cdir, n))
    return mism, viol, "\n".join(log)


# ---------------------------------------------------------------------------------------------
# Known findings, replay, evidence
# ---------------------------------------------------------------------------------------------

def known_findings(pid):
    p = os.path.join(VERIF, "known_findings.json")
    if not os.path.exists(p):
        return []
    with open(p) as f:
        data = json.load(f)
    return [e for e in data.get("findings", []) if e.get("property") == pid and e.get("status") == "open"]


def write_replay(pid, seed, kind, payload):
    d = os.path.join(VERIF, "replays")
    os.makedirs(d, exist_ok=True)
    body = json.dumps(payload, sort_keys=True)
    name = "%s_%s_%s.json" % (pid, kind, hashlib.sha1(body.encode()).hexdigest()[:10])
    path = os.path.join(d, name)
    with open(path, "w") as f:
        json.dump(dict(property=pid, kind=kind, seed=seed, **payload), f, indent=1, sort_keys=True)
    return path


def write_evidence(pid, ev):
    d = os.path.join(VERIF, "evidence")
    os.makedirs(d, exist_ok=True)
    with open(os.path.join(d, pid + ".json"), "w") as f:
        json.dump(ev, f, indent=1, sort_keys=True)


TRUSTED_BASE_COMMON = [
    "Coq 8.16.1 kernel (coqc, full .vo build); vm_compute bytecode VM for Examples and case files; no native_compute",
    "coqchk -silent -o in the thorough tier",
    "no axioms declared by this development (grep gate on every run); Print Assumptions of each property theorem recorded below",
    "hand-written Gallina model tied to /repo by a correspondence check: Go harness (tag verif, built from /repo's working tree) "
    "runs the real functions, tools/vlib.py transcribes inputs+observed outputs into coq/cases/Cases_*.v, vm_compute compares",
    "tools/gofacts (Go AST -> Gen/SourceFacts.v) for constants / DDL / facade shapes",
    "Keccak-256: generated unrolled Gallina implementation over primitive Uint63 (cross-checked against a readable reference in Base/Hash.v)",
]


class Check:
    """One run of one property's check."""

    def __init__(self, mod, tier, seed, replay=None):
        self.m = mod
        self.pid = mod.ID
        self.tier = tier
        self.seed = seed
        self.replay = replay
        self.t0 = time.time()
        self.violations = []        # list of (replay_path, suffix)
        self.known_hits = []
        self.notes = []
        self.cov = {}

    # -- steps ----------------------------------------------------------------------------
    def step_proofs(self):
        """Rebuild the property's Coq files (incremental), capture Print Assumptions."""
        m = self.m
        facts = regen_facts()
        self.cov["source_facts_sha1"] = hashlib.sha1(facts.encode()).hexdigest()
        bad = forbidden_scan()
        if bad:
            self.obligation_broken("forbidden construct in the Coq development: " + "; ".join(bad[:5]))
        targets = [t for t in getattr(m, "MAKE_TARGETS", [])]
        rc, out = coq_make(targets, timeout=1500)
        obligations = []
        for vf in m.PROPERTIES_V:
            obligations += [(vf, n, l) for (n, l) in obligations_of(vf)]
        discharged = 0
        assumptions = []
        failed = []
        if rc != 0:
            failed.append("make %s failed:\n%s" % (" ".join(targets), out[-2500:]))
        for vf in m.PROPERTIES_V:
            rc2, out2 = coqc(vf, timeout=600)
            if rc2 != 0:   # one retry: another build writing the same .vo at the same moment is not a broken proof
                time.sleep(3)
                coq_make(targets, timeout=1500)
                rc2, out2 = coqc(vf, timeout=600)
            obs = obligations_of(vf)
            if rc2 == 0:
                discharged += len(obs)
                assumptions += parse_assumptions(out2)
            else:
                mm = re.search(r'line (\d+), characters', out2)
                line = int(mm.group(1)) if mm else 0
                ok = [n for (n, l) in obs if l < line]
                # the statement containing the error is the last one starting at or before `line`
                discharged += max(0, len(ok) - 1) if ok else 0
                failed.append("coqc %s failed:\n%s" % (vf, out2[-2500:]))
        axioms = sorted({a for e in assumptions for a in e["axioms"]})
        not_allowed = [a for a in axioms if a not in STD_AXIOMS_ALLOWED and not self.primitive_ok(a)]
        self.cov.update(obligations=len(obligations), discharged=discharged,
                        obligation_names=[n for (_, n, _) in obligations],
                        print_assumptions=dict(closed=sum(1 for e in assumptions if e["closed"]),
                                               with_axioms=sum(1 for e in assumptions if not e["closed"]),
                                               axioms=axioms),
                        checker_cmd="cd /verif/coq && make -j16 %s && coqc -Q theories Verif %s" % (
                            " ".join(targets), " ".join(m.PROPERTIES_V)))
        if not_allowed:
            failed.append("theorems depend on axioms outside the stated trusted base: %s" % not_allowed)
        self.proof_failed = failed
        return not failed

    @staticmethod
    def primitive_ok(a):
        return a.startswith("Uint63.") or a.startswith("PrimInt63.") or a.startswith("Coq.Numbers.Cyclic.Int63")

    def step_harness(self):
        m = self.m
        rc, out, exe = build_harness(m.HARNESS)
        if rc != 0:
            self.harness_failed = "harness %s does not build against the current source (tag verif):\n%s" % (m.HARNESS, out[-3000:])
            return None
        self.harness_failed = None
        wd = os.path.join(BUILD, self.pid)
        os.makedirs(wd, exist_ok=True)
        outs = []
        # 1. corpus of minimized earlier failures / boundary cases, run first
        cdir = os.path.join(VERIF, "corpus", self.pid)
        ncorpus = 0
        if self.replay is None and os.path.isdir(cdir):
            for n in sorted(os.listdir(cdir)):
                if n.endswith(".jsonl"):
                    of = os.path.join(wd, "corpus_" + n)
                    rc, o = run_harness(exe, ["-replay", os.path.join(cdir, n), "-out", of, "-tier", self.tier])
                    if rc != 0:
                        self.harness_failed = "harness failed on corpus %s (rc=%d):\n%s" % (n, rc, o[-3000:])
                        return None
                    got = read_jsonl(of)
                    ncorpus += len(got)
                    outs += got
        # 2. replay or generation
        of = os.path.join(wd, "cases.jsonl")
        if self.replay is not None:
            inp = os.path.join(wd, "replay_in.jsonl")
            with open(self.replay) as f:
                rp = json.load(f)
            with open(inp, "w") as f:
                for c in rp.get("cases", [rp.get("case")]):
                    f.write(json.dumps(c["in"] if isinstance(c, dict) and "in" in c else c) + "\n")
            args = ["-replay", inp, "-out", of, "-tier", self.tier]
        else:
            args = ["-seed", str(self.seed), "-n", str(m.cases_n(self.tier)), "-out", of, "-tier", self.tier] + getattr(m, "HARNESS_ARGS", [])
        rc, o = run_harness(exe, args, timeout=getattr(m, "HARNESS_TIMEOUT", 1500))
        if rc != 0:
            self.harness_failed = "harness run failed (rc=%d):\n%s" % (rc, o[-3000:])
            return None
        outs += read_jsonl(of)
        self.cov["corpus_cases"] = ncorpus
        return outs

    def step_compare(self, outs):
        m = self.m
        terms = [m.coq_case(o) for o in outs]
        mism, viol, log = eval_cases(self.pid, m.CASES_IMPORTS, terms, m.CASE_TYPE, m.CORR, m.SPEC,
                                     shard_size=getattr(m, "SHARD", 400), extra_defs=getattr(m, "EXTRA_DEFS", ""))
        if mism is None:
            self.obligation_broken("case file did not evaluate (model broken or transcription error):\n" + log[-2500:],
                                   theorem="correspondence %s/%s" % (m.CORR, m.SPEC))
            return
        keys = set()
        for o in outs:
            k = m.nontrivial_key(o)
            if k is not None:
                keys.add(json.dumps(k, sort_keys=True))
        self.cov.update(evaluations=len(outs), distinct_nontrivial=len(keys), rule=m.RULE,
                        traces_validated_against_impl=len(outs) - len(mism),
                        correspondence_mismatches=len(mism), spec_violations_raw=len(viol),
                        mismatch_indices=mism[:20], violation_indices=viol[:20],
                        samples=[outs[i] for i in sorted(set([0, len(outs) // 2, len(outs) - 1])) if outs][:3],
                        input_distribution=m.distribution(outs) if hasattr(m, "distribution") else {})
        known = known_findings(self.pid)
        reported_keys = set()
        for i in viol:
            o = outs[i]
            fk = m.finding_key(o) if hasattr(m, "finding_key") else None
            hit = next((e for e in known if fk is not None and e["key"] == fk), None)
            if hit and hit.get("model_reproduces") and i in set(mism):
                # the recorded finding is a behaviour the model of the code AS WRITTEN predicts step by step; on this input the
                # implementation no longer does what that model says, so this is not the recorded failure but a different one
                hit = None
            if hit:
                if fk not in reported_keys:
                    reported_keys.add(fk)
                    self.known_hits.append(hit)
                continue
            if ("viol", fk) in reported_keys:
                continue
            reported_keys.add(("viol", fk))
            path = write_replay(self.pid, self.seed, "input", dict(case=o, finding_key=fk,
                                what="the property predicate (%s) is false on what the implementation returned for this input" % m.SPEC))
            self.violations.append((path, ""))
        concrete = any(sfx == "" for (_, sfx) in self.violations)
        if not concrete and (not viol or all((m.finding_key(outs[i]) if hasattr(m, "finding_key") else None) in
                                             {e["key"] for e in known} for i in viol)):
            only_mism = [i for i in mism if i not in set(viol)]
            if only_mism:
                o = outs[only_mism[0]]
                path = write_replay(self.pid, self.seed, "obligation", dict(
                    case=o, cases=[outs[i] for i in only_mism[:5]],
                    theorem="correspondence %s (model vs implementation) no longer checks on %d case(s); "
                            "the property predicate %s still holds on the implementation's outputs for all %d cases" % (
                                m.CORR, len(only_mism), m.SPEC, len(outs))))
                self.violations.append((path, " no-failing-input-found"))

    def obligation_broken(self, what, theorem=None):
        path = write_replay(self.pid, self.seed, "obligation", dict(theorem=theorem or "proof obligation", what=what))
        self.violations.append((path, " no-failing-input-found"))

    # -- driver ---------------------------------------------------------------------------
    def run(self):
        m = self.m
        proofs_ok = self.step_proofs()
        outs = self.step_harness()
        if outs is None:
            self.obligation_broken(self.harness_failed, theorem="correspondence harness " + m.HARNESS)
        else:
            self.step_compare(outs)
        if not proofs_ok:
            # a proof obligation no longer checks; if the search above found a concrete failing input it has
            # already been reported; otherwise report the broken obligation itself
            if not any(sfx == "" for (_, sfx) in self.violations):
                self.obligation_broken("\n".join(self.proof_failed), theorem=", ".join(m.PROPERTIES_V))
        if hasattr(m, "extra_checks"):
            m.extra_checks(self)
        return self.finish()

    def finish(self):
        m = self.m
        for hit in self.known_hits:
            print("KNOWN-FINDING: property=%s %s" % (self.pid, hit["what"]))
        # de-duplicate, concrete inputs first
        seen = set()
        vio = []
        for (p, sfx) in sorted(self.violations, key=lambda x: x[1]):
            if p in seen:
                continue
            seen.add(p)
            vio.append((p, sfx))
        if any(sfx == "" for (_, sfx) in vio):
            vio = [(p, s) for (p, s) in vio if s == ""]
        else:
            vio = vio[:1]
        for (p, sfx) in vio:
            print("VIOLATION property=%s replay=%s%s" % (self.pid, p, sfx))
        cov = self.cov
        cov.setdefault("obligations", 0)
        cov.setdefault("discharged", 0)
        cov.setdefault("checker_cmd", "")
        cov.setdefault("evaluations", 0)
        cov.setdefault("distinct_nontrivial", 0)
        cov.setdefault("samples", [])
        cov["trusted_base"] = TRUSTED_BASE_COMMON + list(getattr(m, "TRUSTED_EXTRA", []))
        cov["known_findings_hit"] = [h["key"] for h in self.known_hits]
        ev = dict(property_id=self.pid, tier=self.tier, seed=self.seed, level="proof", coverage=cov,
                  assumptions=list(getattr(m, "ASSUMPTIONS", [])), wall_s=round(time.time() - self.t0, 2),
                  violations=len(vio))
        if self.replay is None:
            write_evidence(self.pid, ev)
        print("%s tier=%s seed=%d obligations=%d discharged=%d cases=%d nontrivial=%d mismatches=%s violations=%d known=%d wall=%.1fs" % (
            self.pid, self.tier, self.seed, cov["obligations"], cov["discharged"], cov["evaluations"],
            cov["distinct_nontrivial"], cov.get("correspondence_mismatches", "n/a"), len(vio), len(self.known_hits),
            time.time() - self.t0))
        return 1 if vio else 0


def main(argv):
    import argparse
    ap = argparse.ArgumentParser()
    ap.add_argument("pid")
    ap.add_argument("--tier", default=os.environ.get("VERIF_TIER", "quick"))
    ap.add_argument("--replay", default=None)
    ap.add_argument("--seed", type=int, default=int(os.environ.get("VERIF_SEED", "1")))
    a = ap.parse_args(argv)
    sys.path.insert(0, os.path.join(VERIF, "props"))
    mod = importlib.import_module(a.pid.lower())
    chk = Check(mod, a.tier, a.seed, a.replay)
    if hasattr(mod, "run"):
        return mod.run(chk)
    return chk.run()


if __name__ == "__main__":
    sys.exit(main(sys.argv[1:]))
