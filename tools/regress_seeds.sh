#!/bin/bash
# usage: tools/regress_seeds.sh [lanes] [glob]   - every stored seeded change against the check of its own property
# (tools/seedtest.sh: private worktree of /repo HEAD + private copy of /verif). One line per seed on stdout:
#   <seed> violations=<n> concrete=<n with a failing input> <the check's summary line>
# A line with concrete=0 is a detection that has been lost (or was never concrete).
LANES=${1:-4}; GLOB=${2:-'C*_*'}
cd /verif || exit 2
LIST=$(mktemp); OUT=$(mktemp -d)
ls -d seeded/$GLOB | sort > "$LIST"
lane() {
  awk -v n="$LANES" -v i="$1" 'NR%n==i' "$LIST" | while read -r d; do
    name=$(basename "$d"); id=${name%%_*}
    tools/seedtest.sh "/verif/$d" "$id" > "$OUT/$name.txt" 2>&1
    v=$(grep -c '^VIOLATION' "$OUT/$name.txt"); c=$(grep '^VIOLATION' "$OUT/$name.txt" | grep -vc 'no-failing-input-found')
    echo "$name violations=$v concrete=$c $(grep -E '^C[0-9]+ tier' "$OUT/$name.txt" | cut -c1-120)"
  done
}
for i in $(seq 0 $((LANES-1))); do lane "$i" & done
wait
rm -rf "$LIST" "$OUT"
